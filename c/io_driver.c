/* Calls the repository's print runtime (io.c, compiled with sanitizers) with each value given on the
   command line: prints "p:" print_i64(v) "|l:" println_i64(v) for every argument. */
#include <stdint.h>
#include <stdlib.h>
#include <unistd.h>
#include <string.h>

void print_i64(int64_t value) asm("print_i64");
void println_i64(int64_t value) asm("println_i64");

int main(int argc, char *argv[]) {
  for (int i = 1; i < argc; i++) {
    int64_t v = (int64_t)strtoll(argv[i], NULL, 10);
    write(STDOUT_FILENO, "p:", 2);
    print_i64(v);
    write(STDOUT_FILENO, "|l:", 3);
    println_i64(v);
  }
  return 0;
}
