//! C16 — formatting never changes a program: parse(print(parse(t), w, i)) == parse(t) for all
//! widths/indents, printing is idempotent, and the CLI's in-place mode leaves an equivalent file.

use super::chain::*;
use super::{Acc, Ctx};
use crate::apr::{self, Naming};
use crate::gen_fun::EffectMode;
use crate::json::J;
use crate::pipeline;
use crate::rng::Rng;
use printer::{Print, PrintCfg};

pub fn fmt(p: &fun::syntax::program::Program, width: usize, indent: isize) -> Result<String, pipeline::StageErr> {
    pipeline::guarded("fmt", || {
        let cfg = PrintCfg { width, allow_linebreaks: true, latex: false, omit_decl_sep: false, indent };
        let mut buf = Vec::new();
        p.print_io(&cfg, &mut buf).expect("print");
        String::from_utf8_lossy(&buf).to_string()
    })
}

/// judge one text under one configuration; returns false if a violation was recorded
pub fn judge(acc: &mut Acc, text: &str, tree: &fun::syntax::program::Program, width: usize, indent: isize, origin: &str, neg_zero: bool) -> bool {
    let rj = |detail: &str, printed: &str| {
        J::obj()
            .with("kind", J::s("fmt"))
            .with("src", J::s(text))
            .with("width", J::i(width as i64))
            .with("indent", J::i(indent as i64))
            .with("printed", J::s(printed))
            .with("detail", J::s(detail))
            .with("origin", J::s(origin))
    };
    let nz = if neg_zero { ":literal-minus-zero-operand" } else { "" };
    let printed = match fmt(tree, width, indent) {
        Ok(s) => s,
        Err(e) => {
            acc.violation(format!("C16:printer-panics{nz}"), format!("printing at width {width} indent {indent} panics: {}", e.describe()), rj(&e.describe(), ""));
            return false;
        }
    };
    let reparsed = match pipeline::parse(&printed) {
        Ok(p) => p,
        Err(e) => {
            acc.violation(
                format!("C16:unparsable{nz}"),
                format!("formatted text (width {width}, indent {indent}) does not parse: {}", e.describe()),
                rj(&e.describe(), &printed),
            );
            return false;
        }
    };
    if reparsed != *tree {
        acc.violation(format!("C16:tree-differs{nz}"), format!("formatting at width {width} indent {indent} changes the syntax tree"), rj("tree differs", &printed));
        return false;
    }
    match fmt(&reparsed, width, indent) {
        Ok(again) => {
            if again != printed {
                acc.violation(format!("C16:not-idempotent{nz}"), format!("printing the reparsed tree at width {width} indent {indent} gives different text"), rj("second print differs", &printed));
                return false;
            }
        }
        Err(e) => {
            acc.violation(format!("C16:printer-panics{nz}"), e.describe(), rj(&e.describe(), &printed));
            return false;
        }
    }
    true
}

const HAND: &[&str] = &[
    // a literal zero kept apart from the comparison operator by a comment only
    "def main(x: i64): i64 { if x - 0 // c\n == x { 1 } else { 2 } }",
    "def main(x: i64): i64 { if x * 0 // c\n < x + 1 { 1 } else { 2 } }",
    "def main(x: i64): i64 { if x % 10 // c\n >= 0 // d\n + x { 1 } else { 2 } }",
    "def main(x: i64): i64 { if x == // c\n 0 + x { 1 } else { 2 } }",
    "def main(x: i64): i64 { if x - 0 // c\n != // d\n 0 - x { 1 } else { 2 } }",
    "def main(x: i64): i64 { if 0 // c\n <= x { 1 } else { 2 } }",
    "def main(x: i64): i64 { if x > // c\n 0 { 1 } else { 2 } }",
    "def main(x: i64): i64 { if (let y: i64 = x; 0) // c\n == x { 1 } else { 2 } }",
    "data U { }\ndef main(): i64 { 0 }",
    "data L[A] { N, C(x: A, xs: L[A]) }\ndef main(): i64 { N.case[i64] { N => 0, C(x, xs) => 1, } }",
    "codata F[A, B] { ap(x: A): B }\ndef main(): i64 { new { ap(x) => x }.ap[i64, i64](3) }",
    "def f(x: i64, k:cns i64): i64 { goto k(x) }\ndef main(): i64 { label a { f(1, a) } }",
    "def main(x: i64): i64 { if 0 == x { 1 } else { if x >= 0 { 2 } else { if 0 < x { 3 } else { 4 } } } }",
    "def main(): i64 { print_i64(1); println_i64(2); exit 3 }",
    "def main(): i64 { let x: i64 = (1 + 2) * (3 - 4) / 5 % 6; x }",
    "data P[A, B] { T(a: A, b: B) }\ndef main(): i64 { T(1, T(2, 3)).case[i64, P[i64, i64]] { T(a, b) => b.case[i64, i64] { T(c, d) => a + (c * d) } } }",
    "def g(): i64 { 1 }\ndef main(): i64 { g() + (g()) }",
    "def main(): i64 { if -1 == 0 { -2 } else { - 3 } }",
    "codata S { hd: i64, tl: S }\ndef ones(): S { new { hd => 1, tl => ones() } }\ndef main(): i64 { ones().tl.tl.hd }",
    "data E { }\ndef f(e: E): i64 { e.case { } }\ndef main(): i64 { 0 }",
    // literal zeros next to comparison operators (lexed together with the operator)
    "def main(x: i64): i64 { if x == -0 { 1 } else { 2 } }",
    "def main(x: i64): i64 { if 0 > 0 { 1 } else { 2 } }",
    "def main(x: i64): i64 { if x == -0 + x { 1 } else { 2 } }",
    "def main(x: i64): i64 { if x <= -0 * x - 0 { 1 } else { 2 } }",
    "def main(x: i64): i64 { if 0 > x - 0 { 1 } else { 2 } }",
    "def main(x: i64): i64 { if 0 <= x * 0 { 1 } else { 2 } }",
    "def main(x: i64): i64 { if 0 == 0 - 0 { 1 } else { 2 } }",
    "def main(x: i64): i64 { if 0 != exit 0 { 1 } else { 2 } }",
    "def main(x: i64): i64 { if 0 < let y: i64 = 1; 0 { 1 } else { 2 } }",
    "def main(x: i64): i64 { if x > -0 - -0 { 1 } else { 2 } }",
    "def main(x: i64): i64 { if 10 == x { if x == 10 { 1 } else { 0 } } else { if 100 < x { 2 } else { 3 } } }",
];

pub fn run(ctx: &Ctx, acc: &mut Acc) {
    let max_cases: u64 = if ctx.quick() { 2_500 } else { 100_000_000 };
    let mut i = 0u64;
    let pairs_per_program = if ctx.quick() { 8 } else { 48 };
    // hand-written oddities first (empty declarations, empty clause lists, trailing commas, ...)
    if ctx.shard == 0 {
        for (k, t) in HAND.iter().enumerate() {
            match pipeline::parse(t) {
                Ok(tree) => {
                    for (w, ind) in [(1usize, 0isize), (20, 2), (80, 4), (200, 8), (40, 1)] {
                        acc.evaluations += 1;
                        if judge(acc, t, &tree, w, ind, &format!("hand-written #{k}"), false) {
                            acc.nontrivial(crate::rng::hash_str(t) ^ (w as u64) << 8 ^ ind as u64);
                        }
                    }
                }
                Err(_) => acc.discard("hand-written text does not parse"),
            }
        }
    }
    // the hand-written programs of the repository (comments, layout and constructs of real users)
    for (k, t) in super::corpus::all_sources().iter().enumerate() {
        if k % ctx.nshards != ctx.shard {
            continue;
        }
        if let Ok(tree) = pipeline::parse(&t.1) {
            for (w, ind) in [(1usize, 0isize), (20, 2), (80, 4), (200, 8), (40, 1), (60, 3)] {
                acc.evaluations += 1;
                if judge(acc, &t.1, &tree, w, ind, &format!("corpus {}", t.0), false) {
                    acc.count("corpus_texts_judged");
                    acc.nontrivial(crate::rng::hash_str(&t.1) ^ (w as u64) << 8 ^ ind as u64);
                }
            }
        }
    }
    while ctx.time_left() && i < max_cases {
        let seed = ctx.case_seed(i);
        i += 1;
        let case = gen_fun_case(seed, EffectMode::Anywhere, |_, _| {});
        let (text, neg_zero) = apr::print_prog_noisy(&case.prog, Naming::Policy, seed ^ 0x5eed);
        let tree = match pipeline::parse(&text) {
            Ok(t) => t,
            Err(e) => {
                match e {
                    pipeline::StageErr::Panic { .. } => acc.discard("parser panics (C18's business)"),
                    _ => acc.discard("generated noisy text does not parse"),
                }
                continue;
            }
        };
        acc.count("programs_parsed");
        if neg_zero {
            acc.count("programs_with_minus_zero_operand");
        }
        let mut rng = Rng::new(seed ^ 0xF0F0);
        let mut configs: Vec<(usize, isize)> = vec![(80, 4), (1, 0), (200, 8)];
        for _ in 0..pairs_per_program {
            configs.push((1 + rng.below(200), rng.below(9) as isize));
        }
        let mut ok = true;
        for (w, ind) in configs {
            acc.evaluations += 1;
            acc.count(&format!("width_bucket_{}", match w { 1..=20 => "1-20", 21..=60 => "21-60", 61..=120 => "61-120", _ => "121-200" }));
            if !judge(acc, &text, &tree, w, ind, &format!("gen_fun seed={seed} noisy"), neg_zero) {
                ok = false;
                break;
            }
        }
        if ok {
            acc.nontrivial(crate::rng::hash_str(&text));
            if acc.samples.len() < 2 {
                acc.sample(J::obj().with("text", J::s(text.clone())).with("configs_tried", J::i(pairs_per_program as i64 + 3)));
            }
        }
        // CLI path on a sample
        if seed % 50 == 0 {
            cli_inplace(acc, &text, &tree, 1 + rng.below(120), rng.below(9) as isize);
        }
    }
    acc.add("programs", i);
}

pub fn scc_bin() -> std::path::PathBuf {
    std::path::PathBuf::from(concat!(env!("CARGO_MANIFEST_DIR"), "/target-scc/release/scc"))
}

fn cli_inplace(acc: &mut Acc, text: &str, tree: &fun::syntax::program::Program, width: usize, indent: isize) {
    let bin = scc_bin();
    if !bin.exists() {
        acc.count("cli_skipped_no_binary");
        return;
    }
    let dir = std::env::temp_dir().join(format!("scc-verif-fmt-{}", std::process::id()));
    let _ = std::fs::create_dir_all(&dir);
    let file = dir.join("prog.sc");
    if std::fs::write(&file, text).is_err() {
        return;
    }
    let out = std::process::Command::new(&bin)
        .current_dir(&dir)
        .args(["fmt", "--inplace", "--width", &width.to_string(), "--indent", &indent.to_string()])
        .arg(&file)
        .output();
    acc.count("cli_inplace_runs");
    match out {
        Ok(o) => {
            let after = std::fs::read_to_string(&file).unwrap_or_default();
            let rj = J::obj().with("kind", J::s("fmt-cli")).with("src", J::s(text)).with("width", J::i(width as i64)).with("indent", J::i(indent as i64)).with("after", J::s(after.clone()));
            if !o.status.success() {
                acc.violation("C16:cli-fails", format!("scc fmt --inplace exits with {:?}: {}", o.status.code(), String::from_utf8_lossy(&o.stderr).chars().take(200).collect::<String>()), rj);
            } else {
                match pipeline::parse(&after) {
                    Ok(t2) => {
                        if t2 != *tree {
                            acc.violation("C16:cli-tree-differs", "file rewritten by scc fmt --inplace parses to a different tree", rj);
                        }
                    }
                    Err(e) => acc.violation("C16:cli-unparsable", format!("file rewritten by scc fmt --inplace does not parse: {}", e.describe()), rj),
                }
            }
        }
        Err(e) => acc.infra(format!("cannot run scc: {e}")),
    }
    let _ = std::fs::remove_dir_all(&dir);
}

pub fn replay(payload: &J, acc: &mut Acc) {
    let src = payload.get("src").and_then(|s| s.as_str()).unwrap_or("");
    let w = payload.get("width").and_then(|x| x.as_i64()).unwrap_or(80) as usize;
    let i = payload.get("indent").and_then(|x| x.as_i64()).unwrap_or(4) as isize;
    acc.evaluations += 1;
    match pipeline::parse(src) {
        Ok(t) => {
            judge(acc, src, &t, w, i, "replay", false);
        }
        Err(e) => acc.infra(format!("replay text does not parse: {}", e.describe())),
    }
}
