//! C20 — runtime contract: printing, argument passing, argument-count check and exit status for
//! all 64-bit values (sanitizer build of io.c, native one-line programs, AArch64 entry shuffle).

use super::chain::*;
use super::{Acc, Ctx};
use crate::emu::EmuConfig;
use crate::json::J;
use crate::native::{self, BuildErr, Workdir};
use crate::pipeline;
use crate::rng::Rng;
use std::process::Command;
use std::time::Duration;

fn pool(rng: &mut Rng) -> i64 {
    const P: &[i64] = &[
        0, 1, -1, 9, -9, 10, -10, 99, 100, -100, 999, 1000, 255, 256, 257, -255, -256, -257, 2147483647, 2147483648, -2147483648, -2147483649, 4294967295, 4294967296, 4294967297,
        999999999999999999, 1000000000000000000, -999999999999999999, -1000000000000000000, 9223372036854775807, -9223372036854775807, i64::MIN, i64::MIN + 1, 1 << 62, -(1 << 62), 5000000000,
        -5000000000, 10000000000, 1 << 40, (1 << 40) - 1,
    ];
    match rng.below(4) {
        0 | 1 => *rng.pick(P),
        2 => rng.next_u64() as i64,
        _ => {
            // powers of ten and two +-1
            let base: i64 = if rng.chance(1, 2) { 10i64.pow(rng.below(19) as u32) } else { 1i64 << rng.below(63) };
            let v = base.wrapping_add(rng.range(-1, 1));
            if rng.chance(1, 2) { v.wrapping_neg() } else { v }
        }
    }
}

/// (a) io.c with ASan+UBSan
fn io_sanitized(acc: &mut Acc, wd: &mut Workdir, rng: &mut Rng, rounds: usize) {
    let io = wd.dir.join("io_san.c");
    if std::fs::write(&io, driver::IO_RUNTIME).is_err() {
        acc.infra("cannot write io.c");
        return;
    }
    let drv = concat!(env!("CARGO_MANIFEST_DIR"), "/../c/io_driver.c");
    let exe = wd.dir.join("io_san");
    let o = Command::new("clang")
        .args(["-g", "-O1", "-fsanitize=address,undefined", "-fno-sanitize-recover=all", "-fno-omit-frame-pointer", "-o"])
        .arg(&exe)
        .arg(drv)
        .arg(&io)
        .output();
    match o {
        Ok(o) if o.status.success() => {}
        Ok(o) => {
            acc.infra(format!("clang sanitizer build of io.c failed: {}", String::from_utf8_lossy(&o.stderr).chars().take(300).collect::<String>()));
            return;
        }
        Err(e) => {
            acc.infra(format!("clang: {e}"));
            return;
        }
    }
    for _ in 0..rounds {
        let vals: Vec<i64> = (0..40).map(|_| pool(rng)).collect();
        let mut cmd = Command::new(&exe);
        cmd.env("ASAN_OPTIONS", "detect_leaks=1:abort_on_error=0:exitcode=98").env("UBSAN_OPTIONS", "halt_on_error=1:exitcode=99");
        for v in &vals {
            cmd.arg(v.to_string());
        }
        let Ok(r) = native::run_exe(&mut cmd, Duration::from_secs(30)) else {
            acc.infra("cannot run the sanitized io driver");
            return;
        };
        acc.evaluations += 1;
        acc.add("values_printed_under_sanitizers", 2 * vals.len() as u64);
        let mut want = String::new();
        for v in &vals {
            want.push_str(&format!("p:{v}|l:{v}\n"));
        }
        let rj = J::obj().with("kind", J::s("io-sanitized")).with("values", args_json(&vals));
        if r.status != Some(0) {
            let msg: String = String::from_utf8_lossy(&r.stderr).lines().filter(|l| l.contains("runtime error") || l.contains("ERROR")).take(2).collect::<Vec<_>>().join(" | ");
            // which value: find the first value whose output is wrong
            let got = String::from_utf8_lossy(&r.stdout);
            let bad = vals.iter().find(|v| !got.contains(&format!("p:{v}|l:{v}\n"))).copied();
            acc.violation(
                format!("C20:io-sanitizer:{}", if bad == Some(i64::MIN) { "INT64_MIN" } else { "other" }),
                format!("sanitizer report / abnormal exit {:?} in the print runtime (first wrong value {:?}): {msg}", r.status, bad),
                rj,
            );
            return;
        }
        if r.stdout != want.as_bytes() {
            let got = String::from_utf8_lossy(&r.stdout);
            let bad = vals.iter().find(|v| !got.contains(&format!("p:{v}|l:{v}\n"))).copied();
            acc.violation(
                format!("C20:io-output:{}", if bad == Some(i64::MIN) { "INT64_MIN" } else { "other" }),
                format!("print runtime writes a wrong representation for {:?}", bad),
                rj,
            );
            return;
        }
        for v in &vals {
            acc.nontrivial(*v as u64 ^ 0xA0A0);
        }
    }
}

pub const BODY_SHAPES: usize = 7;

/// main prints its parameters and returns `result`; `shape` varies what the body does in between
/// without printing anything else or changing the result (the entry code, the lifting of
/// continuations out of main and the closure / label machinery must not disturb the parameters)
fn one_liner(k: usize, result: &str, shape: usize) -> String {
    let params: Vec<String> = (0..k).map(|i| format!("a{i}: i64")).collect();
    let names: Vec<String> = (0..k).map(|i| format!("a{i}")).collect();
    let mut body = String::new();
    for i in 0..k {
        body.push_str(&format!("println_i64(a{i});\n  "));
    }
    let first = if k > 0 { "a0" } else { "3" };
    let decls = "data B2 { Tt, Ff }\ncodata Fn1 { ap(u: i64): i64 }\ndef mkb(n: i64): B2 { if n < 0 { Tt } else { Ff } }\n";
    match shape % BODY_SHAPES {
        0 => format!("def main({}): i64 {{\n  {body}{result}\n}}\n", params.join(", ")),
        // a conditional whose continuation is not a leaf
        1 => format!("def main({}): i64 {{\n  {body}let x: i64 = if {first} < 0 {{ 1 }} else {{ 2 }};\n  let y: i64 = x * 0;\n  ({result}) + y\n}}\n", params.join(", ")),
        // a match in the middle of main
        2 => format!("{decls}def main({}): i64 {{\n  {body}let x: i64 = mkb({first}).case {{ Tt => 0, Ff => 0 }};\n  ({result}) + x\n}}\n", params.join(", ")),
        // all parameters passed on to another definition
        3 => format!("def pass({}): i64 {{ {result} }}\ndef main({}): i64 {{\n  {body}pass({})\n}}\n", params.join(", "), params.join(", "), names.join(", ")),
        // a label block
        4 => format!("def main({}): i64 {{\n  {body}label l {{ if {first} == 123456789 {{ goto l({result}) }} else {{ {result} }} }}\n}}\n", params.join(", ")),
        // a closure capturing the parameters
        5 => format!("{decls}def main({}): i64 {{\n  {body}let f: Fn1 = new {{ ap(u) => u + ({result}) }};\n  f.ap(0)\n}}\n", params.join(", ")),
        // conditional before the prints
        _ => format!("def main({}): i64 {{\n  let x: i64 = if {first} == 0 {{ 0 }} else {{ 0 }};\n  {body}({result}) + x\n}}\n", params.join(", ")),
    }
}

/// (b), (c): native executables of one-line programs
fn native_args(acc: &mut Acc, wd: &mut Workdir, rng: &mut Rng, rounds: usize, all_shapes: bool) {
    for k in 0..=5usize {
        let shapes: Vec<usize> = if all_shapes { (0..BODY_SHAPES).collect() } else { vec![0, 1 + rng.below(BODY_SHAPES - 1), 1 + rng.below(BODY_SHAPES - 1)] };
        // result: a parameter, a literal or a sum
        let (result_src, result_of): (String, Box<dyn Fn(&[i64]) -> i64>) = match rng.below(3) {
            0 if k > 0 => {
                let j = rng.below(k);
                (format!("a{j}"), Box::new(move |a: &[i64]| a[j]))
            }
            1 if k > 1 => ("a0 + a1".to_string(), Box::new(|a: &[i64]| a[0].wrapping_add(a[1]))),
            _ => {
                let lit = rng.range(-70000, 70000);
                (format!("{lit}"), Box::new(move |_: &[i64]| lit))
            }
        };
      for shape in shapes.iter().copied() {
        let src = one_liner(k, &result_src, shape);
        acc.count(&format!("main_body_shape_{shape}"));
        let asm = match pipeline::all_stages(&src).and_then(|s| pipeline::x86(s.linear)) {
            Ok(a) => a,
            Err(e) => {
                acc.violation("C20:compile", format!("one-line program with {k} parameters does not compile: {}", e.describe()), J::obj().with("src", J::s(src)));
                continue;
            }
        };
        // every second shape with an explicit heap size (the driver file is cached per parameter count
        // and heap size in one infrastructure directory shared by all programs of this worker)
        let heap = if shape % 2 == 1 { Some(48) } else { None };
        let exe = match wd.build_x86(&asm.text, asm.nargs, heap) {
            Ok(e) => e,
            Err(BuildErr::Assemble(m)) => {
                acc.violation("C20:assemble", m.clone(), J::obj().with("src", J::s(src)));
                continue;
            }
            Err(BuildErr::Infra(m)) => {
                acc.infra(m);
                continue;
            }
        };
        for _ in 0..rounds {
            let args: Vec<i64> = (0..k).map(|_| pool(rng)).collect();
            let mut cmd = Command::new(&exe);
            for a in &args {
                // decimal, but not always in the shortest form: leading zeros, an explicit plus sign
                let text = match rng.below(6) {
                    0 => {
                        acc.count("arguments_with_leading_zeros");
                        let digits = a.unsigned_abs().to_string();
                        format!("{}{}{digits}", if *a < 0 { "-" } else { "" }, "0".repeat(1 + rng.below(3)))
                    }
                    1 if *a >= 0 => {
                        acc.count("arguments_with_plus_sign");
                        format!("+{a}")
                    }
                    _ => a.to_string(),
                };
                cmd.arg(text);
            }
            let Ok(r) = native::run_exe(&mut cmd, Duration::from_secs(20)) else { continue };
            acc.evaluations += 1;
            acc.count(&format!("native_runs_{k}_parameters"));
            let mut want = String::new();
            for a in &args {
                want.push_str(&format!("{a}\n"));
            }
            let code = (result_of(&args) & 0xff) as i32;
            let rj = J::obj().with("kind", J::s("native-args")).with("src", J::s(src.clone())).with("args", args_json(&args));
            if r.stdout != want.as_bytes() {
                let got = String::from_utf8_lossy(&r.stdout);
                let idx = args.iter().position(|a| !got.lines().any(|l| l == a.to_string()));
                let cls = match idx.map(|i| args[i]) {
                    Some(v) if v == i64::MIN => "INT64_MIN",
                    Some(v) if v > i32::MAX as i64 || v < i32::MIN as i64 => "beyond-32-bits",
                    _ => "other",
                };
                acc.violation(format!("C20:argument-or-print:{cls}"), format!("arguments {args:?}: stdout {:?} instead of {:?}", got.chars().take(120).collect::<String>(), want.chars().take(120).collect::<String>()), rj);
                break;
            }
            if r.status != Some(code) {
                acc.violation("C20:exit-status", format!("arguments {args:?}: exit status {:?} (signal {:?}) instead of {code}", r.status, r.signal), rj);
                break;
            }
            acc.nontrivial(crate::rng::hash_str(&format!("{k}:{args:?}")));
        }
        // (c) wrong number of arguments
        for delta in [-1i64, 1, 3] {
            let n = k as i64 + delta;
            if n < 0 {
                continue;
            }
            let mut cmd = Command::new(&exe);
            for i in 0..n {
                cmd.arg((i + 1).to_string());
            }
            let Ok(r) = native::run_exe(&mut cmd, Duration::from_secs(20)) else { continue };
            acc.evaluations += 1;
            acc.count("wrong_argument_count_runs");
            let out = String::from_utf8_lossy(&r.stdout).to_string();
            let reported = out.contains("wrong number of arguments");
            let ran = out.lines().any(|l| l.trim_matches('\0').parse::<i64>().is_ok());
            if !reported || ran || r.status == Some(0) && k > 0 {
                acc.violation(
                    "C20:argument-count",
                    format!("program with {k} parameters started with {n} arguments: stdout {:?}, status {:?}", out.chars().take(80).collect::<String>(), r.status),
                    J::obj().with("kind", J::s("native-argcount")).with("src", J::s(src.clone())).with("given", J::i(n)),
                );
            }
        }
        let _ = std::fs::remove_file(&exe);
      }
    }
}

/// (d) AArch64: entry registers X1..X7 reach main's parameters
fn a64_entry(acc: &mut Acc, rng: &mut Rng, rounds: usize) {
    for ks in 0..8 * BODY_SHAPES {
        let (k, shape) = (ks / BODY_SHAPES, ks % BODY_SHAPES);
        let src = one_liner(k, if k > 0 { "a0" } else { "7" }, shape);
        let asm = match pipeline::all_stages(&src).and_then(|s| pipeline::a64(s.linear)) {
            Ok(a) => a,
            Err(e) => {
                if !e.is_capacity() {
                    acc.violation("C20:a64-compile", format!("one-line program with {k} parameters: {}", e.describe()), J::obj().with("src", J::s(src)));
                } else {
                    acc.count("a64_capacity");
                }
                continue;
            }
        };
        let prog = match crate::emu::a64::parse(&asm.text) {
            Ok(p) => p,
            Err(e) => {
                acc.infra(format!("a64 parse: {e}"));
                continue;
            }
        };
        for _ in 0..rounds {
            let args: Vec<i64> = (0..k).map(|_| pool(rng)).collect();
            let r = crate::emu::a64::run(&prog, &args, &EmuConfig::default());
            acc.evaluations += 1;
            acc.count(&format!("a64_entry_runs_{k}_parameters"));
            let got: Vec<i64> = r.outcome.prints.iter().map(|p| p.value).collect();
            let want_end = if k > 0 { args[0] } else { 7 };
            if let Some(v) = &r.violation {
                acc.violation("C20:a64-entry", format!("AArch64 entry with {k} arguments: {:?} {}", v.kind, v.msg), J::obj().with("src", J::s(src.clone())).with("args", args_json(&args)));
                break;
            }
            if got != args || r.outcome.end != Ok(want_end) {
                acc.violation("C20:a64-entry", format!("AArch64 entry with arguments {args:?} delivers {got:?}, result {:?}", r.outcome.end), J::obj().with("src", J::s(src.clone())).with("args", args_json(&args)));
                break;
            }
            acc.nontrivial(crate::rng::hash_str(&format!("a64:{k}:{args:?}")));
        }
    }
}


/// (e) the value handed to the print primitives is the printed variable's value wherever that
/// variable lives: L live variables of mixed kinds (register / spill placements, odd and even
/// numbers of saved registers), boundary values, on the x86-64 and AArch64 emulators
fn print_placement(acc: &mut Acc, rng: &mut Rng, ctx: &Ctx) {
    use super::backend::{codegen, emulate, Isa};
    let mut idx = 0usize;
    for l in 0..=23usize {
        for kinds in 0..4usize {
            let mut ps = vec![0usize, l / 2, l.saturating_sub(2), l.saturating_sub(1)];
            ps.dedup();
            for printed in ps {
                idx += 1;
                if idx % ctx.nshards != ctx.shard {
                    continue;
                }
                let src = super::directed13::program(l, kinds, printed, 1);
                let Ok(st) = stages(&src) else {
                    acc.infra(format!("C20 print-placement program does not compile (l={l} kinds={kinds})"));
                    continue;
                };
                let args = vec![pool(rng)];
                let (reference, _) = crate::sem_axcut::run(&st.linear, &args, crate::sem_axcut::Mode::Positional, &Default::default());
                if !reference.defined() {
                    acc.discard("print placement: reference undefined");
                    continue;
                }
                for isa in [Isa::X86, Isa::A64] {
                    let Ok(asm) = codegen(isa, st.linear.clone()) else {
                        acc.discard("print placement: capacity limit of the backend");
                        continue;
                    };
                    let r = match emulate(isa, &asm.text, &args, &EmuConfig::default()) {
                        Ok(r) => r,
                        Err(e) => {
                            acc.infra(format!("print placement: emulator cannot parse: {e}"));
                            continue;
                        }
                    };
                    acc.evaluations += 1;
                    acc.count(&format!("print_placement_runs_{}", isa.name()));
                    if r.violation.is_some() || r.outcome.end.is_err() {
                        // sanitizer events belong to C06/C07/C09/C13
                        acc.count("print_placement_runs_ended_by_other_monitors");
                        continue;
                    }
                    let want: Vec<i64> = reference.prints.iter().map(|p| p.value).collect();
                    let got: Vec<i64> = r.outcome.prints.iter().map(|p| p.value).collect();
                    let nl_w: Vec<bool> = reference.prints.iter().map(|p| p.newline).collect();
                    let nl_g: Vec<bool> = r.outcome.prints.iter().map(|p| p.newline).collect();
                    if want != got || nl_w != nl_g {
                        acc.violation(
                            format!("C20:print-placement:{}", isa.name()),
                            format!("{}: print with {l} live variables (kinds {kinds}, printed variable {printed}), argument {}: the print primitives receive {got:?}, the program prints {want:?}", isa.name(), args[0]),
                            J::obj().with("kind", J::s("print-placement")).with("src", J::s(src.clone())).with("args", args_json(&args)).with("isa", J::s(isa.name())),
                        );
                    } else {
                        acc.nontrivial(crate::rng::hash_str(&format!("pp:{l}:{kinds}:{printed}:{}", isa.name())));
                    }
                }
            }
        }
    }
}

pub fn run(ctx: &Ctx, acc: &mut Acc) {
    let mut wd = Workdir::new(&format!("c20-{}", ctx.shard));
    let mut rng = Rng::new(ctx.case_seed(0));
    let mut round = 0;
    while ctx.time_left() && (round < 1 || !ctx.quick() || ctx.start.elapsed() < ctx.budget / 3) {
        io_sanitized(acc, &mut wd, &mut rng, if ctx.quick() { 3 } else { 20 });
        native_args(acc, &mut wd, &mut rng, if ctx.quick() { 6 } else { 40 }, !ctx.quick());
        a64_entry(acc, &mut rng, if ctx.quick() { 10 } else { 100 });
        print_placement(acc, &mut rng, ctx);
        round += 1;
        if !acc.violations.is_empty() {
            break;
        }
    }
    acc.sample(J::obj().with("one_liner", J::s(one_liner(3, "a1", 1))).with("example_values", args_json(&[i64::MIN, 5000000000, -1])));
}

pub fn replay(payload: &J, acc: &mut Acc) {
    // replays re-run the whole (cheap) directed part
    let _ = payload;
    let mut wd = Workdir::new("c20-replay");
    let mut rng = Rng::new(1);
    io_sanitized(acc, &mut wd, &mut rng, 5);
    native_args(acc, &mut wd, &mut rng, 10, true);
    a64_entry(acc, &mut rng, 10);
    let ctx = Ctx { prop: "C20".into(), tier: super::Tier::Quick, seed: 1, shard: 0, nshards: 1, budget: Duration::from_secs(600), start: std::time::Instant::now() };
    print_placement(acc, &mut rng, &ctx);
}
