//! C18 — any input yields a result or a diagnostic, never a crash.

use super::chain::*;
use super::{Acc, Ctx};
use crate::gen_fun::EffectMode;
use crate::json::J;
use crate::mutate;
use crate::pipeline::{self, StageErr};
use crate::rng::Rng;
use std::sync::atomic::{AtomicU64, Ordering};
use std::sync::Arc;
use std::time::Instant;

pub fn cur_file(prop: &str, shard: usize) -> std::path::PathBuf {
    std::env::temp_dir().join(format!("scc-verif-cur-{prop}-{shard}.json"))
}

fn site(msg: &str) -> String {
    msg.rsplit(" @ ").next().unwrap_or("").to_string()
}

fn valid_main(p: &fun::syntax::program::CheckedProgram) -> Option<bool> {
    let m = p.defs.iter().find(|d| d.name == "main")?;
    let ints = m.context.bindings.iter().all(|b| b.chi == fun::syntax::context::Chirality::Prd && matches!(b.ty, fun::syntax::types::Ty::I64 { .. }));
    Some(ints && m.context.bindings.len() <= 5 && matches!(m.ret_ty, fun::syntax::types::Ty::I64 { .. }))
}

/// returns Some(true) if accepted and all later stages ran
pub fn judge_text(acc: &mut Acc, text: &str, origin: &str) -> Option<bool> {
    let rj = |detail: &str| J::obj().with("kind", J::s("robustness")).with("src", J::s(text)).with("detail", J::s(detail)).with("origin", J::s(origin));
    let parsed = match pipeline::parse(text) {
        Ok(p) => p,
        Err(StageErr::Panic { msg, .. }) => {
            acc.violation(format!("C18:panic:parse:{}", site(&msg)), format!("the parser panics: {msg}"), rj(&msg));
            return None;
        }
        Err(_) => {
            acc.count("parse_errors_reported");
            return Some(false);
        }
    };
    let checked = match pipeline::check(parsed) {
        Ok(c) => c,
        Err(StageErr::Panic { msg, .. }) => {
            acc.violation(format!("C18:panic:check:{}", site(&msg)), format!("the type checker panics: {msg}"), rj(&msg));
            return None;
        }
        Err(_) => {
            acc.count("type_errors_reported");
            return Some(false);
        }
    };
    acc.count("accepted");
    match valid_main(&checked) {
        None => {
            acc.count("accepted_without_main");
            return Some(false);
        }
        Some(false) => {
            acc.count("accepted_with_invalid_main");
            return Some(false);
        }
        Some(true) => {}
    }
    let fail = |acc: &mut Acc, e: StageErr| {
        if e.is_capacity() {
            acc.count("capacity_assertions");
        } else if let StageErr::Panic { stage, msg } = &e {
            if *stage == "codegen-rv64" && e.is_rv_unimplemented() {
                acc.count("rv64_print_not_implemented");
            } else {
                acc.violation(format!("C18:panic:{stage}:{}", site(msg)), format!("{stage} panics on an accepted program: {msg}"), rj(msg));
            }
        }
    };
    let lin = match pipeline::to_core(checked).and_then(pipeline::focus).and_then(pipeline::shrink).and_then(pipeline::linearize) {
        Ok(l) => l,
        Err(e) => {
            fail(acc, e);
            return None;
        }
    };
    let mut all = true;
    for r in [pipeline::x86(lin.clone()).map(|_| ()), pipeline::a64(lin.clone()).map(|_| ()), pipeline::rv64(lin).map(|_| ())] {
        if let Err(e) = r {
            fail(acc, e);
            all = false;
        }
    }
    acc.count("accepted_and_compiled");
    Some(all)
}

fn cli(acc: &mut Acc, text: &str, origin: &str, shard: usize, has_valid_main: bool) {
    let bin = super::c16::scc_bin();
    if !bin.exists() {
        acc.count("cli_skipped_no_binary");
        return;
    }
    use std::os::unix::process::ExitStatusExt;
    let base = std::env::temp_dir().join(format!("scc-verif-c18-{}-{}", shard, std::process::id()));
    let stub = base.join("stubbin");
    let _ = std::fs::create_dir_all(&stub);
    for tool in ["yasm", "gcc", "as"] {
        let p = stub.join(tool);
        let _ = std::fs::write(&p, "#!/bin/sh\nexit 0\n");
        let _ = std::process::Command::new("chmod").arg("+x").arg(&p).status();
    }
    let f = base.join("p.sc");
    let _ = std::fs::write(&f, text);
    // later stages are only claimed for accepted programs with a valid entry point
    let mut cmds = vec![vec!["check", "p.sc"], vec!["fmt", "p.sc"]];
    if has_valid_main {
        cmds.push(vec!["codegen", "p.sc", "x86-64"]);
        cmds.push(vec!["codegen", "p.sc", "aarch64"]);
    }
    for cmdline in cmds {
        let o = std::process::Command::new(&bin).current_dir(&base).env("PATH", format!("{}:/usr/bin:/bin", stub.display())).args(&cmdline).output();
        acc.count("cli_runs");
        if let Ok(o) = o {
            let bad = o.status.signal().is_some() || o.status.code() == Some(101);
            if bad {
                let err: String = String::from_utf8_lossy(&o.stderr).chars().take(300).collect();
                // documented capacity assertions are allowed
                if err.contains("Out of temporaries") || err.contains("Out of registers") || err.contains("too many arguments for main") {
                    acc.count("cli_capacity_assertions");
                    continue;
                }
                acc.violation(
                    format!("C18:cli:{}:{}", cmdline[0], err.lines().find(|l| l.contains("panicked at")).map(|l| l.rsplit("panicked at ").next().unwrap_or("").to_string()).unwrap_or_default()),
                    format!("scc {} exits with {:?}/signal {:?}: {err}", cmdline.join(" "), o.status.code(), o.status.signal()),
                    J::obj().with("kind", J::s("robustness-cli")).with("src", J::s(text)).with("origin", J::s(origin)),
                );
            }
        }
    }
    let _ = std::fs::remove_dir_all(&base);
}

fn corpus() -> Vec<String> {
    let mut v = Vec::new();
    for dir in ["/repo/examples", "/repo/testsuite/success_check", "/repo/testsuite/fail_check", "/repo/testsuite/end_to_end"] {
        fn walk(p: &std::path::Path, v: &mut Vec<String>) {
            if let Ok(rd) = std::fs::read_dir(p) {
                for e in rd.flatten() {
                    let q = e.path();
                    if q.is_dir() {
                        walk(&q, v);
                    } else if q.extension().is_some_and(|x| x == "sc") {
                        if let Ok(s) = std::fs::read_to_string(&q) {
                            v.push(s);
                        }
                    }
                }
            }
        }
        walk(std::path::Path::new(dir), &mut v);
    }
    v
}

const SPECIAL: &[&str] = &[
    "def f(): i64 { 1 }",
    "def main(a: i64, b: i64, c: i64, d: i64, e: i64, f: i64): i64 { a }",
    "data L { N }\ndef main(l: L): i64 { 0 }",
    "data L { N }\ndef main(): L { N }",
    "def main(k:cns i64): i64 { 0 }",
    "def main(): i64 { 9223372036854775808 }",
    "def main(): i64 { -9223372036854775808 }",
    "def main(): i64 { 9223372036854775807 + 1 }",
    "def main(): i64 { 1 / 0 }",
    "def main(): i64 { main() }",
    "",
    "\n\n// only a comment",
    "def main(): i64 { exit exit exit 1 }",
    "data A[A] { K(x: A) }\ndef main(): i64 { 0 }",
    "data A[B, B] { K(x: B) }\ndef main(): i64 { 0 }",
    "data List[A] { Nil, Cons(x: A, xs: List) }\ndef main(): i64 { Nil.case[i64] { Nil => 0, Cons(x, xs) => 1 } }",
    "data List[A] { Nil, Cons(x: A, xs: List[Bogus]) }\ndef main(): i64 { 0 }",
    "data List[A] { Nil, Cons(x: A, xs: List[A, A]) }\ndef f(l: List[i64]): i64 { l.case[i64] { Nil => 0, Cons(x, xs) => x } }\ndef main(): i64 { f(Cons(1, Nil)) }",
    "codata F { ap(x: i64): Undefined }\ndef main(): i64 { 0 }",
    "def main(): i64 { new { } }",
    "def main(): i64 { x.case { } }",
    "def main(): i64 { label a { goto a(goto a(1)) } }",
    "def main(): i64 { let x: Undefined = 1; 2 }",
    "def main(): i64 { 1.foo }",
    "def main(): i64 { K }",
    "def main(): i64 { f() }",
];

pub fn run(ctx: &Ctx, acc: &mut Acc) {
    // the real tool runs on the default 8 MiB main-thread stack: use the same here, so that inputs
    // "within stack limits" are judged against the same limit
    let prop = ctx.prop.clone();
    let (tier, seed, shard, nshards, budget) = (ctx.tier, ctx.seed, ctx.shard, ctx.nshards, ctx.budget);
    let started = Arc::new(AtomicU64::new(0));
    let t0 = Instant::now();
    {
        let started = started.clone();
        let cur = cur_file(&prop, shard);
        std::thread::spawn(move || loop {
            std::thread::sleep(std::time::Duration::from_millis(500));
            let s = started.load(Ordering::SeqCst);
            if s != 0 && t0.elapsed().as_millis() as u64 > s + 60_000 {
                if let Ok(t) = std::fs::read_to_string(&cur) {
                    let _ = std::fs::write(&cur, t.replacen("\"marker\":\"running\"", "\"marker\":\"timeout\"", 1));
                }
                std::process::abort();
            }
        });
    }
    let mut inner = Acc::default();
    std::mem::swap(&mut inner, acc);
    let h = std::thread::Builder::new()
        .stack_size(8 << 20)
        .spawn(move || {
            let ctx = Ctx { prop, tier, seed, shard, nshards, budget, start: t0 };
            let mut acc = inner;
            body(&ctx, &mut acc, &started, t0);
            acc
        })
        .expect("spawn");
    match h.join() {
        Ok(a) => *acc = a,
        Err(_) => acc.infra("C18 worker thread panicked"),
    }
    let _ = std::fs::remove_file(cur_file(&ctx.prop, ctx.shard));
}

fn body(ctx: &Ctx, acc: &mut Acc, started: &AtomicU64, t0: Instant) {
    let corpus = corpus();
    let max_cases: u64 = if ctx.quick() { 20_000 } else { 1_000_000_000 };
    let cur = cur_file(&ctx.prop, ctx.shard);
    let mut i = 0u64;
    let mut base_case: Option<FunCase> = None;
    while ctx.time_left() && i < max_cases {
        let seed = ctx.case_seed(i);
        i += 1;
        let mut rng = Rng::new(seed);
        if base_case.is_none() || i % 8 == 0 {
            base_case = Some(gen_fun_case(seed, EffectMode::Anywhere, |_, _| {}));
        }
        let base_full = base_case.as_ref().unwrap();
        let base = &base_full.src;
        let (text, what): (String, String) = match rng.below(20) {
            0..=7 => {
                let mut t = base.clone();
                let mut w = Vec::new();
                for _ in 0..1 + rng.below(3) {
                    let (t2, d) = mutate::mutate_tokens(&t, &mut rng);
                    t = t2;
                    w.push(d);
                }
                (t, format!("token mutation: {}", w.join(", ")))
            }
            8..=12 => {
                let mut t = base.clone();
                let mut w = Vec::new();
                for _ in 0..1 + rng.below(2) {
                    let (t2, d) = mutate::mutate_chars(&t, &mut rng);
                    t = t2;
                    w.push(d);
                }
                (t, format!("character mutation: {}", w.join(", ")))
            }
            13..=14 if !corpus.is_empty() => {
                let c = rng.pick(&corpus).clone();
                let (t, d) = if rng.chance(1, 2) { mutate::mutate_tokens(&c, &mut rng) } else { mutate::mutate_chars(&c, &mut rng) };
                (t, format!("corpus mutation: {d}"))
            }
            15 => {
                let depth = [5, 20, 60, 120, 200][rng.below(5)];
                let k = rng.below(6);
                (mutate::nested(k, depth), format!("nesting kind {k} depth {depth}"))
            }
            16 => (rng.pick(SPECIAL).to_string(), "special".to_string()),
            // a user definition named like a label the compiler generates for this very program
            18 => match super::c14::clash_text(base_full) {
                Some(t) => (t, "definition renamed to a generated label".to_string()),
                None => (base.clone(), "unmutated generated program".to_string()),
            },
            17 => {
                // valid programs with non-regular / mutually recursive types, as they are and mutated
                let b = rng.pick(super::corpus::BUILTIN).1.to_string();
                match rng.below(3) {
                    0 => (b, "special: builtin".to_string()),
                    1 => {
                        let (t, d) = mutate::mutate_tokens(&b, &mut rng);
                        (t, format!("builtin mutation: {d}"))
                    }
                    _ => {
                        let (t, d) = mutate::mutate_chars(&b, &mut rng);
                        (t, format!("builtin mutation: {d}"))
                    }
                }
            }
            // a valid program whose identifiers are extreme (still valid: renamed consistently)
            19 if i % 2 == 0 => {
                let (t, d) = mutate::rename_to_extreme(base, &mut rng);
                (t, format!("extreme identifiers: {d}"))
            }
            _ => (base.clone(), "unmutated generated program".to_string()),
        };
        acc.evaluations += 1;
        acc.count(&format!("workload_{}", what.split(':').next().unwrap_or("")));
        let record = J::obj().with("marker", J::s("running")).with("src", J::s(text.clone())).with("origin", J::s(format!("seed={seed} {what}")));
        let _ = std::fs::write(&cur, record.to_string());
        started.store(t0.elapsed().as_millis() as u64 + 1, Ordering::SeqCst);
        let before = acc.violations.len();
        let r = judge_text(acc, &text, &format!("seed={seed} {what}"));
        started.store(0, Ordering::SeqCst);
        if acc.violations.len() == before {
            acc.nontrivial(crate::rng::hash_str(&text));
            if acc.samples.len() < 3 && r == Some(false) && text.len() < 1500 {
                acc.sample(J::obj().with("text", J::s(text.clone())).with("mutation", J::s(what.clone())).with("result", J::s("diagnostic")));
            }
        }
        if seed % 50 == 0 {
            cli(acc, &text, &format!("seed={seed} {what}"), ctx.shard, r.is_some_and(|b| b));
        }
    }
    acc.add("inputs", i);
}

pub fn replay(payload: &J, acc: &mut Acc) {
    let src = payload.get("src").and_then(|s| s.as_str()).unwrap_or("").to_string();
    acc.evaluations += 1;
    let mut inner = Acc::default();
    std::mem::swap(&mut inner, acc);
    let h = std::thread::Builder::new().stack_size(8 << 20).spawn(move || {
        let mut acc = inner;
        judge_text(&mut acc, &src, "replay");
        let r = judge_text(&mut Acc::default(), &src, "replay");
        cli(&mut acc, &src, "replay", 0, r.is_some_and(|b| b));
        acc
    });
    match h.map(|h| h.join()) {
        Ok(Ok(a)) => *acc = a,
        _ => acc.infra("replay thread failed"),
    }
}
