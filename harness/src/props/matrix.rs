//! Placement matrices (C06/C07/C08): ONE statement (operator, comparison, literal) is compiled by
//! the real code generator with operands and target in every placement class around the
//! register/spill boundary and emulated from a state of known values.

use super::c11::{self, Config11, Kind};
use super::{Acc, Ctx};
use crate::json::J;
use crate::sem_axcut::{cmp_eval, op_eval};
use axcut::syntax::statements::ifc::IfSort;
use axcut::syntax::statements::{IfC, Literal, Op};
use axcut::syntax::{BinOp, Identifier, Statement};
use axcut2backend::config::TemporaryNumber;
use std::rc::Rc;

fn var(i: usize) -> Identifier {
    // the plan names old variables o_(200+i)
    Identifier { name: "o".into(), id: 200 + i }
}

fn lit_then_stop(v: i64, id: usize) -> Statement {
    Statement::Literal(Literal { lit: v, var: Identifier { name: "r".into(), id }, next: Rc::new(c11::stop_statement()), free_vars_next: None })
}

pub const VALUE_PAIRS: &[(i64, i64)] = &[
    (7, 3),
    (-7, 3),
    (7, -3),
    (-7, -3),
    (0, 5),
    (5, 5),
    (0x1234_5678_9ABC_DEF0, -0x0FED_CBA9_8765_4321),
    (i64::MAX, 2),
    (i64::MIN + 1, -1),
    (1 << 40, 1 << 30),
    (-1, 1),
    (3, 7),
];

pub fn boundary_literals() -> Vec<i64> {
    let mut v = vec![0, 1, -1, 2, -2, 255, 256, 4095, 4096, -4095, -4096, 65535, 65536, -65535, -65536, -65537, 2147483647, 2147483648, -2147483648, -2147483649, 4294967295, 4294967296, i64::MAX, i64::MIN, i64::MIN + 1, i64::MAX - 1];
    let hw = [0x0000u64, 0xFFFF, 0x1234];
    for a in hw {
        for b in hw {
            for c in hw {
                for d in hw {
                    v.push((a | b << 16 | c << 32 | d << 48) as i64);
                }
            }
        }
    }
    v.sort();
    v.dedup();
    v
}

fn sizes(isa: usize, quick: bool) -> Vec<usize> {
    // number of live variables before the statement (the target gets position P)
    match (isa, quick) {
        (0, true) => vec![2, 5, 6, 7, 9],
        (0, false) => (1..=10).collect(),
        (1, true) => vec![2, 12, 13, 14, 16],
        (1, false) => vec![1, 2, 3, 11, 12, 13, 14, 15, 16, 17],
        (_, true) => vec![2, 7, 12],
        (_, false) => (1..=12).collect(),
    }
}

struct Cell {
    isa: usize,
    p: usize,
    what: String,
    stmt: Statement,
    values: Vec<i64>,
    expect: Option<i64>,
    /// positions read by the statement (always integers)
    operands: Vec<usize>,
    /// every second other live variable is an object (both of its temporaries are live)
    objects: bool,
}

fn run_cell(acc: &mut Acc, c: &Cell) {
    acc.evaluations += 1;
    let kinds: Vec<Kind> = (0..c.p).map(|i| if c.objects && !c.operands.contains(&i) && i % 2 == 0 { Kind::Block } else { Kind::Ext }).collect();
    let cfg = Config11 { isa: c.isa, window: 0, kinds: kinds.clone(), map: vec![], share: vec![None; c.p] };
    let mut plan = c11::plan(&cfg);
    for (i, v) in c.values.iter().enumerate() {
        if kinds[i] == Kind::Ext {
            plan.init[i].1 = *v as u64;
        }
    }
    let rj = || {
        J::obj()
            .with("kind", J::s("placement"))
            .with("isa", J::s(c11::ISA_NAMES[c.isa]))
            .with("live_variables", J::i(c.p as i64))
            .with("statement", J::s(c.what.clone()))
            .with("values", J::Arr(c.values.iter().map(|v| J::s(v.to_string())).collect()))
    };
    let text = match c11::text_for_stmt(c.isa, &plan, Some(c.stmt.clone())) {
        Ok(t) => t,
        Err(e) => {
            if e.is_capacity() {
                acc.discard("capacity limit");
            } else {
                acc.violation(format!("{}:matrix:panic", prop_of(c.isa)), format!("{} {}: code generation panics: {}", c11::ISA_NAMES[c.isa], c.what, e.describe()), rj());
            }
            return;
        }
    };
    let r = match c11::run_text(c.isa, &text, &plan.heap) {
        Ok(r) => r,
        Err(e) => {
            acc.infra(format!("matrix: {e}"));
            return;
        }
    };
    let Some(want) = c.expect else {
        // reference undefined (division by zero / overflow): nothing to judge
        acc.discard("reference undefined");
        return;
    };
    if let Some(v) = &r.violation {
        acc.violation(format!("{}:matrix:{:?}", prop_of(c.isa), v.kind), format!("{} {} with {} live variables: {:?} {}", c11::ISA_NAMES[c.isa], c.what, c.p, v.kind, v.msg), rj());
        return;
    }
    let Some(snap) = r.snapshot else {
        acc.violation(format!("{}:matrix:no-stop", prop_of(c.isa)), format!("{} {}: the statement's code never reaches the next statement ({:?})", c11::ISA_NAMES[c.isa], c.what, r.outcome.end), rj());
        return;
    };
    let got = c11::read_temp(c.isa, &snap, c.p, TemporaryNumber::Snd);
    if got != Some((want as u64, true)) {
        acc.violation(
            format!("{}:matrix:value", prop_of(c.isa)),
            format!("{} {} with {} live variables and values {:?}: target holds {:?}, expected {want}", c11::ISA_NAMES[c.isa], c.what, c.p, c.values, got.map(|(v, d)| (v as i64, d))),
            rj(),
        );
        return;
    }
    for (i, v) in c.values.iter().enumerate() {
        if kinds[i] == Kind::Block {
            // an object: block pointer and tag must both survive the statement
            let g1 = c11::read_temp(c.isa, &snap, i, TemporaryNumber::Fst);
            let g2 = c11::read_temp(c.isa, &snap, i, TemporaryNumber::Snd);
            if g1 != Some((plan.init[i].0, true)) || g2 != Some((plan.init[i].1, true)) {
                acc.violation(
                    format!("{}:matrix:object-lost", prop_of(c.isa)),
                    format!("{} {} with {} live variables: the object at position {i} changed from ({:#x}, {:#x}) to ({:?}, {:?})", c11::ISA_NAMES[c.isa], c.what, c.p, plan.init[i].0, plan.init[i].1, g1, g2),
                    rj(),
                );
                return;
            }
            acc.count("object_variables_checked");
            continue;
        }
        let g = c11::read_temp(c.isa, &snap, i, TemporaryNumber::Snd);
        if g != Some((*v as u64, true)) {
            acc.violation(
                format!("{}:matrix:operand-lost", prop_of(c.isa)),
                format!("{} {} with {} live variables: variable at position {i} changed from {v} to {:?}", c11::ISA_NAMES[c.isa], c.what, c.p, g.map(|(x, d)| (x as i64, d))),
                rj(),
            );
            return;
        }
    }
    let (h, hd) = c11::reg_of(c.isa, &snap, true);
    let (f, fd) = c11::reg_of(c.isa, &snap, false);
    if !hd || !fd || h != crate::emu::HEAP_BASE || f != plan.free_reg {
        acc.violation(format!("{}:matrix:heap-registers", prop_of(c.isa)), format!("{} {}: heap/free registers changed", c11::ISA_NAMES[c.isa], c.what), rj());
        return;
    }
    if c.isa != 2 {
        if let Some(sp0) = c11::baseline_sp(c.isa) {
            if snap.sp != sp0 {
                acc.violation(format!("{}:matrix:stack-pointer", prop_of(c.isa)), format!("{} {}: stack pointer changed", c11::ISA_NAMES[c.isa], c.what), rj());
                return;
            }
        }
    }
    acc.distinct_extra += 1;
}

fn prop_of(isa: usize) -> &'static str {
    ["C06", "C07", "C08"][isa]
}

pub fn run(ctx: &Ctx, acc: &mut Acc, isa: usize) {
    let quick = ctx.quick();
    let ops = [BinOp::Sum, BinOp::Sub, BinOp::Prod, BinOp::Div, BinOp::Rem];
    let sorts = [IfSort::Equal, IfSort::NotEqual, IfSort::Less, IfSort::LessOrEqual, IfSort::Greater, IfSort::GreaterOrEqual];
    let mut idx = 0u64;
    let mut complete = true;
    let mine = |idx: &mut u64| -> bool {
        *idx += 1;
        *idx % ctx.nshards as u64 == ctx.shard as u64
    };
    let pairs: Vec<(i64, i64)> = if quick { VALUE_PAIRS[..7].to_vec() } else { VALUE_PAIRS.to_vec() };
    'outer: for p in sizes(isa, quick) {
        // operators: all operand placements (including the same variable twice)
        for op in &ops {
            for i in 0..p {
                for j in 0..p {
                    for (k, (a, b)) in pairs.iter().enumerate() {
                        if !mine(&mut idx) {
                            continue;
                        }
                        if !ctx.time_left() {
                            complete = false;
                            break 'outer;
                        }
                        let mut values: Vec<i64> = (0..p).map(|x| 1000 + 17 * x as i64 + k as i64).collect();
                        values[i] = *a;
                        values[j] = if i == j { *a } else { *b };
                        let (x, y) = (values[i], values[j]);
                        let stmt = Statement::Op(Op { fst: var(i), op: op.clone(), snd: var(j), var: Identifier { name: "r".into(), id: 900 }, next: Rc::new(c11::stop_statement()), free_vars_next: None });
                        let cell = Cell { isa, p, what: format!("r <- v{i} {op:?} v{j}"), stmt, values, expect: op_eval(op, x, y), operands: vec![i, j], objects: k % 2 == 1 };
                        acc.count(&format!("op_{op:?}"));
                        run_cell(acc, &cell);
                    }
                }
            }
        }
        // comparisons: two-operand and zero forms; the branch taken defines the literal bound to the target
        for sort in &sorts {
            for i in 0..p {
                for j in (0..p).map(Some).chain([None]) {
                    for (k, (a, b)) in [(3i64, 5i64), (5, 3), (4, 4), (0, 0), (-1, 0), (i64::MIN, i64::MAX)].into_iter().enumerate() {
                        if !mine(&mut idx) {
                            continue;
                        }
                        if !ctx.time_left() {
                            complete = false;
                            break 'outer;
                        }
                        let mut values: Vec<i64> = (0..p).map(|x| 2000 + 13 * x as i64).collect();
                        values[i] = a;
                        if let Some(j) = j {
                            values[j] = if i == j { a } else { b };
                        }
                        let x = values[i];
                        let y = j.map(|j| values[j]).unwrap_or(0);
                        let stmt = Statement::IfC(IfC { sort: *sort, fst: var(i), snd: j.map(var), thenc: Rc::new(lit_then_stop(111, 901)), elsec: Rc::new(lit_then_stop(222, 902)) });
                        let cell = Cell { isa, p, what: format!("if v{i} {sort:?} {} then 111 else 222", j.map(|j| format!("v{j}")).unwrap_or("0".into())), stmt, values, expect: Some(if cmp_eval(*sort, x, y) { 111 } else { 222 }), operands: j.into_iter().chain([i]).collect(), objects: k % 2 == 1 };
                        acc.count(if j.is_some() { "compare_two_operands" } else { "compare_with_zero" });
                        run_cell(acc, &cell);
                    }
                }
            }
        }
        // literals of every magnitude into the target position
        for v in boundary_literals() {
            if !mine(&mut idx) {
                continue;
            }
            if !ctx.time_left() {
                complete = false;
                break 'outer;
            }
            let values: Vec<i64> = (0..p).map(|x| 3000 + x as i64).collect();
            let cell = Cell { isa, p, what: format!("lit r <- {v}"), stmt: lit_then_stop(v, 903), values, expect: Some(v), operands: vec![], objects: idx % 2 == 1 };
            acc.count("literal");
            run_cell(acc, &cell);
        }
    }
    if acc.exhaustive.is_none() {
        acc.exhaustive = Some(complete);
    }
    acc.notes.push(format!(
        "placement matrix on {}: operators x all operand pairs x sizes {:?}; comparisons (two-operand and zero forms); {} boundary literals{}",
        c11::ISA_NAMES[isa],
        sizes(isa, quick),
        boundary_literals().len(),
        if complete { "" } else { " (time budget ended the enumeration early)" }
    ));
}

pub fn replay(payload: &J, acc: &mut Acc) {
    // matrix cells are cheap: re-run the whole matrix of the backend named in the payload
    let isa = payload.get("isa").and_then(|s| s.as_str()).and_then(|s| c11::ISA_NAMES.iter().position(|x| *x == s)).unwrap_or(0);
    let ctx = Ctx { prop: prop_of(isa).into(), tier: super::Tier::Quick, seed: 1, shard: 0, nshards: 1, budget: std::time::Duration::from_secs(300), start: std::time::Instant::now() };
    run(&ctx, acc, isa);
}
