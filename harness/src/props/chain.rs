//! Shared helpers: generated Fun cases, the stage chain and blame assignment.

use crate::apr::{self, Naming};
use crate::cek;
use crate::gen_fun::{self, EffectMode, Profile};
use crate::json::J;
use crate::pipeline::{self, StageErr, Stages};
use crate::rng::Rng;
use crate::sem_axcut;
use crate::trace::{self, Outcome};

pub struct FunCase {
    pub prog: apr::Prog,
    pub src: String,
    pub twin: String,
    pub args: Vec<Vec<i64>>,
    pub profile: Profile,
    pub feats: std::collections::HashMap<&'static str, u64>,
    pub seed: u64,
}

pub fn gen_fun_case(seed: u64, effects: EffectMode, tweak: impl FnOnce(&mut Profile, &mut Rng)) -> FunCase {
    let mut rng = Rng::new(seed);
    let mut prof = Profile::random(&mut rng, effects);
    tweak(&mut prof, &mut rng);
    let (mut prog, mut feats) = gen_fun::generate(&mut rng, prof.clone());
    // generator self-check: a program with clashing declarations is the generator's fault
    let mut tries = 0;
    while let Err(m) = prog.self_check() {
        tries += 1;
        assert!(tries < 20, "gen_fun keeps producing clashing declarations: {m}");
        let r = gen_fun::generate(&mut rng, prof.clone());
        prog = r.0;
        feats = r.1;
    }
    let src = apr::print_prog(&prog, Naming::Policy);
    let twin = apr::print_prog(&prog, Naming::Unique);
    let n = prog.defs[prog.main].params.len();
    let mut args = Vec::new();
    args.push((0..n).map(|_| rng.range(-9, 9)).collect::<Vec<i64>>());
    if n > 0 {
        args.push((0..n).map(|_| rng.small_i64()).collect());
        args.push((0..n).map(|_| rng.boundary_i64()).collect());
    }
    FunCase { prog, src, twin, args, profile: prof, feats, seed }
}

/// hash of the program text with binder-name noise removed (the alpha-renamed twin)
pub fn case_hash(c: &FunCase) -> u64 {
    crate::rng::hash_str(&c.twin)
}

pub fn args_json(a: &[i64]) -> J {
    J::Arr(a.iter().map(|x| J::s(x.to_string())).collect())
}

pub fn args_from_json(j: Option<&J>) -> Vec<i64> {
    j.and_then(|a| a.as_arr())
        .map(|a| a.iter().filter_map(|x| x.as_str().and_then(|s| s.parse().ok()).or(x.as_i64())).collect())
        .unwrap_or_default()
}

pub fn stages(src: &str) -> Result<Stages, StageErr> {
    pipeline::all_stages(src)
}

/// Which adjacent pair of levels first disagrees (for replay files; the verdict never depends on it)
pub fn blame(reference: &Outcome, st: &Stages, args: &[i64]) -> String {
    let (o1, _) = sem_axcut::run(&st.shrunk, args, sem_axcut::Mode::Named, &Default::default());
    if let Some(d) = trace::diff(reference, &o1) {
        return format!("source..AxCut(non-linear): {d}");
    }
    let (o2, _) = sem_axcut::run(&st.linear, args, sem_axcut::Mode::Positional, &Default::default());
    if let Some(d) = trace::diff(reference, &o2) {
        return format!("AxCut..linearized: {d}");
    }
    match pipeline::x86(st.linear.clone()) {
        Ok(asm) => match crate::emu::x86::parse(&asm.text) {
            Ok(p) => {
                let r = crate::emu::x86::run(&p, args, &Default::default());
                if let Some(v) = r.violation {
                    return format!("x86-64 emulator sanitizer: {:?} {}", v.kind, v.msg);
                }
                if let Some(d) = trace::diff(reference, &r.outcome) {
                    return format!("linearized..x86-64 text: {d}");
                }
                "x86-64 text..native process (assembler/driver/runtime)".into()
            }
            Err(e) => format!("emulator cannot parse the text: {e}"),
        },
        Err(e) => e.describe(),
    }
}

pub fn cek_ref(c: &FunCase, args: &[i64]) -> (Outcome, cek::Stats) {
    cek::run(&c.prog, args, &cek::Limits::default())
}
