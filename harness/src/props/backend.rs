//! C06 / C09 / C10 / C13 (and C07, C08 once their emulators exist): run generated code on the
//! instrumented emulators against the AxCut reference machine.

use super::chain::*;
use super::{Acc, Ctx};
use crate::emu::{self, EmuConfig, EmuResult, ViolationKind};
use crate::gen_fun::EffectMode;
use crate::json::J;
use crate::pipeline::{self, Asm, StageErr};
use crate::sem_axcut;
use crate::trace::{self, Undefined};

#[derive(Clone, Copy, Debug, PartialEq, Eq)]
pub enum Isa {
    X86,
    A64,
    Rv,
}

impl Isa {
    pub fn name(self) -> &'static str {
        match self {
            Isa::X86 => "x86_64",
            Isa::A64 => "aarch64",
            Isa::Rv => "rv64",
        }
    }
    pub fn from_name(s: &str) -> Option<Isa> {
        match s {
            "x86_64" => Some(Isa::X86),
            "aarch64" => Some(Isa::A64),
            "rv64" => Some(Isa::Rv),
            _ => None,
        }
    }
}

pub fn codegen(isa: Isa, p: axcut::syntax::Prog) -> Result<Asm, StageErr> {
    match isa {
        Isa::X86 => pipeline::x86(p),
        Isa::A64 => pipeline::a64(p),
        Isa::Rv => pipeline::rv64(p),
    }
}

pub fn emulate(isa: Isa, text: &str, args: &[i64], cfg: &EmuConfig) -> Result<EmuResult, String> {
    match isa {
        Isa::X86 => {
            let p = emu::x86::parse(text)?;
            Ok(emu::x86::run(&p, args, cfg))
        }
        Isa::A64 => {
            let p = emu::a64::parse(text)?;
            Ok(emu::a64::run(&p, args, cfg))
        }
        Isa::Rv => {
            let p = emu::rv::parse(text)?;
            Ok(emu::rv::run(&p, args, cfg))
        }
    }
}

/// Which sanitizer events belong to which property.
pub fn owns(prop: &str, kind: &ViolationKind, msg: &str) -> bool {
    let from_call = msg.contains("clobbered by an external call");
    // (x86.rs: "value clobbered by an external call")
    match prop {
        // an access outside the memory of the program is a fault on the real machine while the
        // reference terminates normally: the behaviour is not preserved (it is C09's business as well)
        "C06" | "C07" | "C08" => matches!(kind, ViolationKind::WildJump | ViolationKind::Unencodable | ViolationKind::OutOfBounds) || (*kind == ViolationKind::Poison && !from_call),
        "C09" => matches!(kind, ViolationKind::Heap | ViolationKind::OutOfBounds),
        "C10" => matches!(kind, ViolationKind::Footprint),
        "C13" => *kind == ViolationKind::Abi || (*kind == ViolationKind::Poison && from_call),
        _ => false,
    }
}

/// emulators that exist so far
pub const BUILT: &[Isa] = &[Isa::X86, Isa::A64, Isa::Rv];

pub fn isas_for(prop: &str) -> Vec<Isa> {
    isas_wanted(prop).into_iter().filter(|i| BUILT.contains(i)).collect()
}

fn isas_wanted(prop: &str) -> Vec<Isa> {
    match prop {
        "C06" => vec![Isa::X86],
        "C07" => vec![Isa::A64],
        "C08" => vec![Isa::Rv],
        "C13" => vec![Isa::X86, Isa::A64],
        _ => vec![Isa::X86, Isa::A64, Isa::Rv],
    }
}

pub struct LinCase<'a> {
    pub linear: &'a axcut::syntax::Prog,
    pub args: &'a [i64],
    pub origin: String,
    pub src: Option<&'a str>,
}

/// Judge one linear AxCut program on one backend.  Returns true if the run was non-trivial.
pub fn judge_linear(prop: &str, isa: Isa, acc: &mut Acc, c: &LinCase, cfg: &EmuConfig) -> bool {
    use printer::Print;
    let (reference, axst) = sem_axcut::run(c.linear, c.args, sem_axcut::Mode::Positional, &Default::default());
    match &reference.end {
        Ok(_) => {}
        Err(Undefined::Stuck(_)) | Err(Undefined::Internal(_)) => {
            // The value comparison needs a reference; the heap, footprint and calling-convention
            // monitors do not: they judge the execution of the generated code itself, whatever
            // produced the linear program.
            if !matches!(prop, "C09" | "C10" | "C13") || isa == Isa::Rv {
                acc.discard("linear program rejected by the positional machine (C05's business)");
                return false;
            }
            acc.count("monitored_without_reference");
        }
        Err(u) => {
            acc.discard(&format!("reference undefined: {u:?}"));
            return false;
        }
    }
    if isa == Isa::Rv && !reference.prints.is_empty() {
        acc.discard("rv64: program prints (outside C08's domain)");
        return false;
    }
    let replay = |detail: &str| {
        let mut j = J::obj()
            .with("kind", J::s("linear-backend"))
            .with("isa", J::s(isa.name()))
            .with("args", args_json(c.args))
            .with("origin", J::s(c.origin.clone()))
            .with("linear_text", J::s(c.linear.print_to_string(None)))
            .with("detail", J::s(detail));
        if let Some(s) = c.src {
            j.set("src", J::s(s));
        }
        j
    };
    let asm = match codegen(isa, c.linear.clone()) {
        Ok(a) => a,
        Err(e) => {
            if e.is_capacity() {
                acc.discard(&format!("{}: capacity limit", isa.name()));
            } else if isa == Isa::Rv && e.is_rv_unimplemented() {
                acc.discard("rv64: not implemented construct");
            } else if matches!(prop, "C06" | "C07" | "C08") {
                acc.violation(format!("{prop}:panic:{}", isa.name()), format!("code generator panics: {}", e.describe()), replay(&e.describe()));
            }
            return false;
        }
    };
    if isa == Isa::Rv && axst.max_env > 14 {
        acc.discard("rv64: more than 14 live variables");
        return false;
    }
    let r = match emulate(isa, &asm.text, c.args, cfg) {
        Ok(r) => r,
        Err(e) => {
            // an instruction form the emulator does not know: on x86-64 the host CPU can still judge
            // the value comparison
            if isa == Isa::X86 && prop == "C06" {
                return native_fallback(acc, &asm, c, &reference, &e);
            }
            acc.infra(format!("{}: emulator cannot parse the text: {e}", isa.name()));
            return false;
        }
    };
    acc.count(&format!("{}_executions", isa.name()));
    acc.add(&format!("{}_instructions", isa.name()), r.stats.instructions);
    acc.add("statement_boundaries_checked", r.stats.heap_walks);
    acc.add("blocks_walked", r.stats.blocks_walked);
    acc.add("external_calls_checked", r.stats.ext_calls);
    acc.add("print_contexts_compared", r.stats.print_contexts_compared);
    acc.add("print_context_variables_compared", r.stats.print_context_variables_compared);
    acc.add("spill_accesses", r.stats.spill_accesses);
    acc.add("shared_blocks_observed", r.stats.shared_blocks_seen);
    acc.add("deferred_blocks_observed", r.stats.deferred_seen);
    acc.max("max_shared_count", r.stats.max_shared_count);
    acc.max("max_frontier_blocks", r.stats.max_frontier_blocks);
    acc.max("max_reachable_blocks", r.stats.max_reachable_blocks);
    acc.max("max_multi_block_objects_alive", r.stats.multi_block_objects);
    acc.max("max_env", r.stats.max_env as u64);
    for (k, v) in &r.stats.marker_kinds {
        acc.add(&format!("stmt_{k}"), *v);
    }
    if let Some(v) = &r.violation {
        if owns(prop, &v.kind, &v.msg) {
            acc.violation(
                format!("{prop}:{}:{:?}", isa.name(), v.kind),
                format!("{} line {}: {:?}: {}", isa.name(), v.pc_line, v.kind, v.msg),
                replay(&v.msg),
            );
        } else {
            acc.count(&format!("events_owned_by_other_properties_{:?}", v.kind));
        }
        return false;
    }
    match &r.outcome.end {
        Err(Undefined::Heap) => {
            acc.discard("emulated heap exhausted (not enough heap)");
            return false;
        }
        Err(Undefined::Fuel) => {
            acc.discard("emulator step budget exhausted (inconclusive)");
            return false;
        }
        _ => {}
    }
    if matches!(prop, "C06" | "C07" | "C08") {
        if let Some(d) = trace::diff(&reference, &r.outcome) {
            acc.violation(format!("{prop}:{}:trace", isa.name()), format!("{}: {d}", isa.name()), replay(&d));
            return false;
        }
    }
    if prop == "C13" && reference.end.is_ok() {
        // not a violation by itself (a changed location that is never read again is harmless):
        // reported only together with an observed difference of the behaviour
        if let (Some(what), Some(d)) = (&r.stats.print_changed, trace::diff(&reference, &r.outcome)) {
            let msg = format!("{}: {what}, and the behaviour differs from the reference ({d}): a value did not survive the save/restore sequence around the external call", isa.name());
            acc.violation(format!("C13:{}:print-save", isa.name()), msg.clone(), replay(&msg));
            return false;
        }
    }
    match prop {
        "C09" | "C10" => r.stats.heap_walks > 0 && r.stats.max_frontier_blocks > 1,
        "C13" => r.stats.ext_calls > 0 || isa != Isa::Rv,
        _ => r.stats.instructions > 30,
    }
}

/// x86-64 text the emulator cannot parse: assemble, link and run it on the host and compare
/// standard output and exit status with the reference machine
fn native_fallback(acc: &mut Acc, asm: &Asm, c: &LinCase, reference: &crate::trace::Outcome, why: &str) -> bool {
    use crate::native::{self, BuildErr, Workdir};
    thread_local! {
        static WD: std::cell::RefCell<Option<Workdir>> = const { std::cell::RefCell::new(None) };
    }
    let Ok(end) = reference.end.clone() else { return false };
    acc.count("x86_64_native_fallback_runs");
    WD.with(|wd| {
        let mut wd = wd.borrow_mut();
        let wd = wd.get_or_insert_with(|| Workdir::new(&format!("c06-fallback-{}", std::process::id())));
        let exe = match wd.build_x86(&asm.text, asm.nargs, None) {
            Ok(e) => e,
            Err(BuildErr::Assemble(m)) => {
                acc.discard(&format!("x86-64 text neither parsed by the emulator ({}) nor accepted by GNU as (C14's business): {}", why.chars().take(60).collect::<String>(), m.lines().next().unwrap_or("")));
                return false;
            }
            Err(BuildErr::Infra(m)) => {
                acc.infra(format!("native fallback: {m}"));
                return false;
            }
        };
        let mut cmd = std::process::Command::new(&exe);
        for a in c.args {
            cmd.arg(a.to_string());
        }
        let r = native::run_exe(&mut cmd, std::time::Duration::from_secs(20));
        let _ = std::fs::remove_file(&exe);
        let Ok(r) = r else { return false };
        if r.timed_out {
            acc.discard("native fallback run exceeded the watchdog (inconclusive)");
            return false;
        }
        let want = reference.render();
        if r.stdout != want || r.status != Some((end & 0xff) as i32) {
            let mut j = J::obj().with("kind", J::s("linear-backend")).with("isa", J::s("x86_64")).with("args", args_json(c.args)).with("origin", J::s(c.origin.clone()));
            if let Some(s) = c.src {
                j.set("src", J::s(s));
            }
            acc.violation(
                "C06:x86_64:native-trace",
                format!(
                    "x86_64 (native run; the emulator does not know an instruction form: {}): stdout/exit {:?}/{:?} (signal {:?}) differs from the reference {:?}/{}",
                    why.chars().take(80).collect::<String>(),
                    String::from_utf8_lossy(&r.stdout).chars().take(60).collect::<String>(),
                    r.status,
                    r.signal,
                    String::from_utf8_lossy(&want).chars().take(60).collect::<String>(),
                    end & 0xff
                ),
                j,
            );
            return false;
        }
        true
    })
}

pub fn run(ctx: &Ctx, acc: &mut Acc) {
    let prop = ctx.prop.as_str();
    let isas = isas_for(prop);
    // C10 judges growth: the shape invariant (C09's business) must not end its runs early.  The
    // value comparison (C06-C08) and the calling-convention monitor (C13) run without the heap
    // monitor: a heap event would end the run before the wrong value or the ABI event is seen.
    let cfg = EmuConfig { enforce_shape: prop != "C10", heap_check_every: if matches!(prop, "C09" | "C10") { 1 } else { 0 }, ..EmuConfig::default() };
    // directed, exhaustive part first: one statement in every placement class
    match prop {
        "C06" => super::matrix::run(&Ctx { prop: ctx.prop.clone(), tier: ctx.tier, seed: ctx.seed, shard: ctx.shard, nshards: ctx.nshards, budget: ctx.budget / 2, start: ctx.start }, acc, 0),
        "C07" => super::matrix::run(&Ctx { prop: ctx.prop.clone(), tier: ctx.tier, seed: ctx.seed, shard: ctx.shard, nshards: ctx.nshards, budget: ctx.budget / 2, start: ctx.start }, acc, 1),
        "C08" => super::matrix::run(&Ctx { prop: ctx.prop.clone(), tier: ctx.tier, seed: ctx.seed, shard: ctx.shard, nshards: ctx.nshards, budget: ctx.budget / 2, start: ctx.start }, acc, 2),
        "C13" => {
            // directed: L live variables at a print x kinds x printed variable x entry arguments
            let mut idx = 0usize;
            'd: for l in 0..=20usize {
                for kinds in 0..4usize {
                    for k in 0..=7usize {
                        for printed in [0usize, l / 2, l.saturating_sub(1)] {
                            idx += 1;
                            if idx % ctx.nshards != ctx.shard {
                                continue;
                            }
                            if ctx.start.elapsed() > ctx.budget / 2 {
                                break 'd;
                            }
                            let src = super::directed13::program(l, kinds, printed, k);
                            let Ok(st) = stages(&src) else {
                                acc.infra(format!("directed C13 program does not compile (l={l} kinds={kinds} k={k})"));
                                continue;
                            };
                            let args: Vec<i64> = (0..k).map(|i| 10 + i as i64 * 3).collect();
                            for isa in &isas {
                                if k > 5 && *isa != Isa::A64 {
                                    continue; // x86-64 passes at most 5 entry arguments
                                }
                                acc.evaluations += 1;
                                let c = LinCase { linear: &st.linear, args: &args, origin: format!("directed print with {l} live variables kinds={kinds} args={k}"), src: Some(&src) };
                                if judge_linear(prop, *isa, acc, &c, &cfg) {
                                    acc.nontrivial(crate::rng::hash_str(&src) ^ *isa as u64);
                                    acc.count(&format!("directed_live_{l}"));
                                }
                            }
                        }
                    }
                }
            }
        }
        "C10" => super::loops::run(&Ctx { prop: ctx.prop.clone(), tier: ctx.tier, seed: ctx.seed, shard: ctx.shard, nshards: ctx.nshards, budget: ctx.budget * 2 / 3, start: ctx.start }, acc, &isas),
        _ => {}
    }
    super::corpus::backend(ctx, acc, &cfg);
    super::directed::run(ctx, acc, &cfg, 6);
    let max_cases: u64 = if ctx.quick() { 3_000 } else { 10_000_000 };
    let mut i = 0u64;
    while ctx.time_left() && i < max_cases {
        let seed = ctx.case_seed(i);
        i += 1;
        if i % 3 == 0 {
            // directly generated AxCut program, linearized by the real linearize()
            let (prog, args) = super::middle::axgen_case(seed, prop != "C08");
            if crate::ty_axcut::check_named(&prog).is_err() {
                acc.infra("gen_axcut produced an ill-typed program (generator defect)");
                continue;
            }
            let Ok(linear) = pipeline::linearize(prog) else {
                acc.discard("linearization failed (C05's business)");
                continue;
            };
            if crate::ty_axcut::check_linear(&linear).is_err() {
                acc.discard("linearized program ill-typed (C05's business)");
                continue;
            }
            acc.count("directly_generated_axcut_programs");
            let mut any = false;
            for a in args.iter().take(2) {
                for isa in &isas {
                    acc.evaluations += 1;
                    let before = acc.violations.len();
                    let c = LinCase { linear: &linear, args: a, origin: format!("gen_axcut seed={seed}"), src: None };
                    if judge_linear(prop, *isa, acc, &c, &cfg) {
                        any = true;
                    }
                    for v in acc.violations.iter_mut().skip(before) {
                        v.replay.set("axgen_seed", J::s(seed.to_string()));
                    }
                }
            }
            if any {
                acc.nontrivial(seed);
            }
            continue;
        }
        let case = gen_fun_case(seed, EffectMode::Anywhere, |p, rng| {
            if matches!(prop, "C09" | "C10") {
                p.prints = 1;
                p.n_data = 2 + rng.below(2);
                p.big_xtors = rng.chance(1, 2);
            }
            if prop == "C13" {
                p.prints = 6;
                p.many_params = rng.chance(1, 2);
            }
            if prop == "C08" {
                p.prints = 0;
            }
        });
        let st = match stages(&case.src) {
            Ok(s) => s,
            Err(e) => {
                acc.discard(&format!("front/middle stages failed ({}): other properties' business", e.describe().chars().take(160).collect::<String>()));
                continue;
            }
        };
        let mut any = false;
        for args in case.args.iter().take(2) {
            for isa in &isas {
                acc.evaluations += 1;
                let c = LinCase { linear: &st.linear, args, origin: format!("gen_fun seed={seed}"), src: Some(&case.src) };
                if judge_linear(prop, *isa, acc, &c, &cfg) {
                    any = true;
                }
            }
        }
        if any {
            acc.nontrivial(case_hash(&case));
            if acc.samples.len() < 3 {
                acc.sample(J::obj().with("src", J::s(case.src.clone())).with("args", args_json(&case.args[0])));
            }
        }
    }
    acc.add("programs", i);
}

pub fn replay(prop: &str, payload: &J, acc: &mut Acc) {
    if payload.get("kind").and_then(|k| k.as_str()) == Some("loop-family") {
        let ctx = Ctx { prop: "C10".into(), tier: super::Tier::Quick, seed: 1, shard: 0, nshards: 1, budget: std::time::Duration::from_secs(600), start: std::time::Instant::now() };
        super::loops::run(&ctx, acc, &isas_for("C10"));
        return;
    }
    if payload.get("kind").and_then(|k| k.as_str()) == Some("placement") {
        super::matrix::replay(payload, acc);
        return;
    }
    if let Some(seed) = payload.get("axgen_seed").and_then(|s| s.as_str()).and_then(|s| s.parse::<u64>().ok()) {
        let (prog, _) = super::middle::axgen_case(seed, prop != "C08");
        let args = args_from_json(payload.get("args"));
        let isa = payload.get("isa").and_then(|s| s.as_str()).and_then(Isa::from_name).unwrap_or(Isa::X86);
        if let Ok(linear) = pipeline::linearize(prog) {
            acc.evaluations += 1;
            let cfg = EmuConfig { enforce_shape: prop != "C10", ..EmuConfig::default() };
            judge_linear(prop, isa, acc, &LinCase { linear: &linear, args: &args, origin: "replay".into(), src: None }, &cfg);
        }
        return;
    }
    let Some(src) = payload.get("src").and_then(|s| s.as_str()) else {
        acc.infra("replay without source text is not supported for this case kind");
        return;
    };
    let args = args_from_json(payload.get("args"));
    let isa = payload.get("isa").and_then(|s| s.as_str()).and_then(Isa::from_name).unwrap_or(Isa::X86);
    match stages(src) {
        Ok(st) => {
            acc.evaluations += 1;
            let c = LinCase { linear: &st.linear, args: &args, origin: "replay".into(), src: Some(src) };
            judge_linear(prop, isa, acc, &c, &EmuConfig::default());
        }
        Err(e) => acc.infra(format!("replay: stages failed: {}", e.describe())),
    }
}
