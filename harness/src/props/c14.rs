//! C14 — emitted assembly is accepted by the target assembler: label table, operand ranges of
//! every instruction form (static scan of the printed text, executed or not), GNU as on the
//! transliterated x86-64 file, clang -target aarch64 on the AArch64 file, jump-table stride from
//! the assembled objects' symbol tables.

use super::chain::*;
use super::{Acc, Ctx};
use crate::emu;
use crate::gen_fun::{EffectMode, NamePolicy};
use crate::json::J;
use crate::native::{BuildErr, Workdir};
use crate::pipeline;
use axcut2backend::config::Config;
use std::collections::{HashMap, HashSet};
use std::process::Command;

const RESERVED: &[&str] = &["asm_main", "cleanup", "print_i64", "println_i64", "main"];

pub struct LabelTable {
    pub defined: Vec<String>,
    pub duplicates: Vec<String>,
}

pub fn label_table(text: &str) -> LabelTable {
    let mut seen = HashSet::new();
    let mut defined = Vec::new();
    let mut duplicates = Vec::new();
    for line in text.lines() {
        let t = line.trim();
        if t.starts_with(';') || t.starts_with("//") {
            continue;
        }
        if let Some(l) = t.strip_suffix(':') {
            if !l.is_empty() && !l.contains(' ') {
                if !seen.insert(l.to_string()) {
                    duplicates.push(l.to_string());
                }
                defined.push(l.to_string());
            }
        }
    }
    LabelTable { defined, duplicates }
}

/// Fallback when the text contains an instruction form the emulator's parser does not know (a new
/// form is not a defect: the assembler decides about it): label references are read off the text
/// — operands of jumps, branches, calls and address computations that are not registers or numbers.
fn textual_label_problem(isa: &str, text: &str, defined: &HashSet<&str>) -> Option<(String, String)> {
    let is_reg_or_num = |t: &str| {
        let t = t.trim();
        t.is_empty()
            || t.parse::<i64>().is_ok()
            || t.starts_with('[')
            || ["rax", "rcx", "rdx", "rbx", "rsp", "rbp", "rsi", "rdi"].contains(&t)
            || (t.len() <= 3 && (t.starts_with('r') || t.starts_with('X') || t.starts_with('x') || t.starts_with('W')) && t[1..].chars().all(|c| c.is_ascii_digit()))
            || ["SP", "LR", "XZR", "zero", "ra", "sp"].contains(&t)
    };
    for (ln, raw) in text.lines().enumerate() {
        let t = raw.trim();
        if t.is_empty() || t.starts_with(';') || t.starts_with("//") || t.starts_with('#') || t.ends_with(':') || t.starts_with('.') || t.starts_with("section") || t.starts_with("global") || t.starts_with("extern") {
            continue;
        }
        let (mn, rest) = t.split_once(char::is_whitespace).unwrap_or((t, ""));
        let mnl = mn.to_ascii_lowercase();
        let mut refs: Vec<String> = Vec::new();
        if let Some(i) = rest.find("[rel ") {
            if let Some(j) = rest[i..].find(']') {
                refs.push(rest[i + 5..i + j].trim().to_string());
            }
        }
        // operands are separated by commas (x86-64, AArch64) or blanks (the RISC-V printer); `near` is a size hint
        let last = rest.split(|c: char| c == ',' || c.is_whitespace()).filter(|x| !x.is_empty()).last().unwrap_or("").trim();
        let is_branch = match isa {
            "x86_64" => (mnl.starts_with('j') || mnl == "call") && !rest.contains(','),
            "aarch64" => mnl == "b" || mnl == "bl" || mnl.starts_with("b.") || mnl == "cbz" || mnl == "cbnz" || mnl == "adr",
            _ => ["j", "jal", "la", "beq", "bne", "blt", "bge", "bltu", "bgeu", "bgt", "ble", "beqz", "bnez"].contains(&mnl.as_str()),
        };
        if is_branch && !is_reg_or_num(last) {
            refs.push(last.to_string());
        }
        for l in refs {
            if !defined.contains(l.as_str()) && !["print_i64", "println_i64"].contains(&l.as_str()) {
                return Some(("undefined-label".into(), format!("{isa} line {}: reference to undefined label {l}", ln + 1)));
            }
        }
    }
    None
}

/// static well-formedness of one backend's text; returns (signature class, message) of the first problem
pub fn asmcheck(isa: &str, text: &str, acc: &mut Acc) -> Option<(String, String)> {
    let lt = label_table(text);
    acc.add("labels_checked", lt.defined.len() as u64);
    if let Some(d) = lt.duplicates.first() {
        let cls = if RESERVED.contains(&d.as_str()) { "reserved" } else if d.starts_with("lift_") { "lifted" } else if d.starts_with("share_") { "shared" } else { "other" };
        return Some((format!("duplicate-label:{cls}"), format!("{isa}: label {d} is defined more than once")));
    }
    let defined: HashSet<&str> = lt.defined.iter().map(|s| s.as_str()).collect();
    let undefined = |l: &str| -> bool { !defined.contains(l) };
    if std::env::var("C14_FORCE_TEXTUAL").is_ok() {
        // testing aid: judge every file with the fallback only
        return textual_label_problem(isa, text, &defined);
    }
    match isa {
        "x86_64" => {
            let p = match emu::x86::parse(text) {
                Ok(p) => p,
                Err(_) => {
                    acc.count("static_monitor_fallback_unknown_instruction_form");
                    return textual_label_problem(isa, text, &defined);
                }
            };
            acc.add("instructions_range_checked", p.ins.len() as u64);
            for (i, ins) in p.ins.iter().enumerate() {
                if let Some(w) = emu::x86::Machine::check_encodable(ins) {
                    return Some((format!("operand:{}", w.split(' ').take(3).collect::<Vec<_>>().join("-")), format!("x86_64 line {}: {w}", p.line[i])));
                }
                let l = match ins {
                    emu::x86::Ins::Jmp(l, _) | emu::x86::Ins::Jcc(_, l) | emu::x86::Ins::Lea(_, l) => Some(l),
                    emu::x86::Ins::Call(f) => {
                        if f != "print_i64" && f != "println_i64" {
                            return Some(("call-target".into(), format!("x86_64 line {}: call of {f}", p.line[i])));
                        }
                        None
                    }
                    _ => None,
                };
                if let Some(l) = l {
                    if undefined(l) {
                        return Some(("undefined-label".into(), format!("x86_64 line {}: reference to undefined label {l}", p.line[i])));
                    }
                }
            }
        }
        "aarch64" => {
            let p = match emu::a64::parse(text) {
                Ok(p) => p,
                Err(_) => {
                    acc.count("static_monitor_fallback_unknown_instruction_form");
                    return textual_label_problem(isa, text, &defined);
                }
            };
            acc.add("instructions_range_checked", p.ins.len() as u64);
            for (i, ins) in p.ins.iter().enumerate() {
                if let Some(w) = &p.unenc[i] {
                    return Some((format!("operand:{}", w.split(' ').take(3).collect::<Vec<_>>().join("-")), format!("aarch64 line {}: {w}", p.line[i])));
                }
                let l = match ins {
                    emu::a64::Ins::B(l) | emu::a64::Ins::Adr(_, l) | emu::a64::Ins::Bcc(_, l) => Some(l),
                    _ => None,
                };
                if let Some(l) = l {
                    if undefined(l) {
                        return Some(("undefined-label".into(), format!("aarch64 line {}: reference to undefined label {l}", p.line[i])));
                    }
                }
            }
        }
        _ => {
            let p = match emu::rv::parse(text) {
                Ok(p) => p,
                Err(_) => {
                    acc.count("static_monitor_fallback_unknown_instruction_form");
                    return textual_label_problem(isa, text, &defined);
                }
            };
            acc.add("instructions_range_checked", p.ins.len() as u64);
            let fits12 = |v: i64| (-2048..=2047).contains(&v);
            for (i, ins) in p.ins.iter().enumerate() {
                let (imm, l): (Option<i64>, Option<&String>) = match ins {
                    emu::rv::Ins::Addi(_, _, v) | emu::rv::Ins::Jalr(_, _, v) | emu::rv::Ins::Lw(_, _, v) | emu::rv::Ins::Sw(_, _, v) => (Some(*v), None),
                    emu::rv::Ins::Jal(_, l) | emu::rv::Ins::La(_, l) | emu::rv::Ins::Br(_, _, _, l) => (None, Some(l)),
                    _ => (None, None),
                };
                if let Some(v) = imm {
                    if !fits12(v) {
                        return Some(("operand:imm12".into(), format!("rv64 line {}: immediate {v} does not fit in 12 bits", p.line[i])));
                    }
                }
                if let Some(l) = l {
                    if undefined(l) {
                        return Some(("undefined-label".into(), format!("rv64 line {}: reference to undefined label {l}", p.line[i])));
                    }
                }
            }
        }
    }
    None
}

/// jump tables of the text: (table label, number of fixed-size entries, label directly after the table)
pub fn jump_tables(text: &str, fixed_jump: &str) -> Vec<(String, usize, String)> {
    let lines: Vec<&str> = text.lines().map(|l| l.trim()).filter(|l| !l.is_empty() && !l.starts_with(';') && !l.starts_with("//")).collect();
    let mut out = Vec::new();
    let mut i = 0;
    while i < lines.len() {
        if let Some(l) = lines[i].strip_suffix(':') {
            let mut k = 0;
            while i + 1 + k < lines.len() && lines[i + 1 + k].starts_with(fixed_jump) {
                k += 1;
            }
            if k >= 2 {
                if let Some(next) = lines.get(i + 1 + k).and_then(|x| x.strip_suffix(':')) {
                    out.push((l.to_string(), k, next.to_string()));
                }
            }
            i += 1 + k;
        } else {
            i += 1;
        }
    }
    out
}

fn symbols(obj: &std::path::Path) -> HashMap<String, u64> {
    let mut m = HashMap::new();
    if let Ok(o) = Command::new("nm").arg(obj).output() {
        for l in String::from_utf8_lossy(&o.stdout).lines() {
            let parts: Vec<&str> = l.split_whitespace().collect();
            if parts.len() == 3 {
                if let Ok(a) = u64::from_str_radix(parts[0], 16) {
                    m.insert(parts[2].to_string(), a);
                }
            }
        }
    }
    m
}

pub fn judge(acc: &mut Acc, wd: &mut Workdir, src: &str, origin: &str, assemble: bool) -> bool {
    let st = match stages(src) {
        Ok(s) => s,
        Err(_) => {
            acc.discard("earlier stage failed: other properties' business");
            return false;
        }
    };
    let rj = |isa: &str, detail: &str| J::obj().with("kind", J::s("asm")).with("isa", J::s(isa)).with("src", J::s(src)).with("detail", J::s(detail)).with("origin", J::s(origin));
    let mut ok = true;
    let mut any = false;
    for isa in ["x86_64", "aarch64", "rv64"] {
        let asm = match isa {
            "x86_64" => pipeline::x86(st.linear.clone()),
            "aarch64" => pipeline::a64(st.linear.clone()),
            _ => pipeline::rv64(st.linear.clone()),
        };
        let asm = match asm {
            Ok(a) => a,
            Err(e) => {
                if e.is_capacity() || e.is_rv_unimplemented() {
                    acc.count(&format!("{isa}_capacity_or_unimplemented"));
                } else {
                    acc.count(&format!("{isa}_codegen_panic (C12's business)"));
                }
                continue;
            }
        };
        any = true;
        acc.count(&format!("{isa}_files_checked"));
        if let Some((cls, msg)) = asmcheck(isa, &asm.text, acc) {
            acc.violation(format!("C14:{isa}:{cls}"), msg.clone(), rj(isa, &msg));
            ok = false;
            continue;
        }
        if !assemble {
            continue;
        }
        if isa == "x86_64" {
            match wd.assemble_x86(&asm.text) {
                Ok(obj) => {
                    acc.count("x86_64_assembled_by_gnu_as");
                    let syms = symbols(&obj);
                    let stride = <axcut2x86_64::Backend as Config<axcut2x86_64::config::Temporary, axcut2x86_64::config::Immediate>>::jump_length(1).val as u64;
                    // two or more consecutive jumps directly after a label are a table, however the jumps are written
                    for (table, k, next) in jump_tables(&asm.text, "jmp ") {
                        if let (Some(a), Some(b)) = (syms.get(&table), syms.get(&next)) {
                            acc.count("jump_tables_measured");
                            if b - a != stride * k as u64 {
                                let m = format!("x86_64: jump table {table} has {k} entries occupying {} bytes, tag arithmetic assumes {stride} per entry", b - a);
                                acc.violation("C14:x86_64:table-stride", m.clone(), rj(isa, &m));
                                ok = false;
                            }
                        }
                    }
                    let _ = std::fs::remove_file(&obj);
                }
                Err(BuildErr::Assemble(m)) => {
                    let first = m.lines().find(|l| l.contains("Error")).unwrap_or("").to_string();
                    let cls = first.rsplit("Error:").next().unwrap_or("").trim().chars().take(40).collect::<String>();
                    acc.violation(format!("C14:x86_64:as:{cls}"), format!("GNU as rejects the x86-64 file: {first}"), rj(isa, &m));
                    ok = false;
                }
                Err(BuildErr::Infra(m)) => acc.infra(m),
            }
        } else if isa == "aarch64" {
            let s = wd.fresh("S");
            if std::fs::write(&s, &asm.text).is_ok() {
                let obj = s.with_extension("o");
                let o = Command::new("clang").args(["-target", "aarch64-linux-gnu", "-c", "-o"]).arg(&obj).arg(&s).output();
                match o {
                    Ok(o) if o.status.success() => {
                        acc.count("aarch64_assembled_by_clang");
                        let syms = symbols(&obj);
                        let stride = <axcut2aarch64::Backend as Config<axcut2aarch64::config::Temporary, axcut2aarch64::config::Immediate>>::jump_length(1).val as u64;
                        for (table, k, next) in jump_tables(&asm.text, "B ") {
                            if let (Some(a), Some(b)) = (syms.get(&table), syms.get(&next)) {
                                acc.count("jump_tables_measured");
                                if b - a != stride * k as u64 {
                                    let m = format!("aarch64: jump table {table} has {k} entries occupying {} bytes, tag arithmetic assumes {stride} per entry", b - a);
                                    acc.violation("C14:aarch64:table-stride", m.clone(), rj(isa, &m));
                                    ok = false;
                                }
                            }
                        }
                    }
                    Ok(o) => {
                        let m: String = String::from_utf8_lossy(&o.stderr).chars().take(400).collect();
                        let first = m.lines().find(|l| l.contains("error")).unwrap_or("").to_string();
                        let cls = first.rsplit("error:").next().unwrap_or("").trim().chars().take(40).collect::<String>();
                        acc.violation(format!("C14:aarch64:clang:{cls}"), format!("clang's integrated assembler rejects the AArch64 file: {first}"), rj(isa, &m));
                        ok = false;
                    }
                    Err(e) => acc.infra(format!("clang: {e}")),
                }
                let _ = std::fs::remove_file(&s);
                let _ = std::fs::remove_file(&obj);
            }
        } else {
            // RISC-V: the backend prints a pseudo-syntax (no commas, upper case, `LW x off base` for a
            // 64-bit load).  A purely syntactic transliteration makes it acceptable to clang's RISC-V
            // assembler, which then judges mnemonics, operand kinds, immediate ranges and labels.
            match rv_to_gas(&asm.text) {
                Ok(gas) => {
                    let sfile = wd.fresh("s");
                    if std::fs::write(&sfile, &gas).is_ok() {
                        let obj = sfile.with_extension("o");
                        let o = Command::new("clang").args(["--target=riscv64", "-march=rv64im", "-mno-relax", "-c", "-o"]).arg(&obj).arg(&sfile).output();
                        match o {
                            Ok(o) if o.status.success() => {
                                acc.count("rv64_assembled_by_clang");
                                // table entries are single JALs: measure them
                                let syms = symbols(&obj);
                                for (table, k, next) in jump_tables(&asm.text, "JAL X0") {
                                    if let (Some(a), Some(b)) = (syms.get(&table), syms.get(&next)) {
                                        acc.count("jump_tables_measured");
                                        if b - a != 4 * k as u64 {
                                            let m = format!("rv64: jump table {table} has {k} entries occupying {} bytes, tag arithmetic assumes 4 per entry", b - a);
                                            acc.violation("C14:rv64:table-stride", m.clone(), rj(isa, &m));
                                            ok = false;
                                        }
                                    }
                                }
                            }
                            Ok(o) => {
                                let m: String = String::from_utf8_lossy(&o.stderr).chars().take(600).collect();
                                let first = m.lines().find(|l| l.contains("error")).unwrap_or("").to_string();
                                let cls = first.rsplit("error:").next().unwrap_or("").trim().chars().take(40).collect::<String>();
                                acc.violation(format!("C14:rv64:clang:{cls}"), format!("clang's RISC-V assembler rejects the (transliterated) rv64 file: {first}"), rj(isa, &m));
                                ok = false;
                            }
                            Err(e) => acc.infra(format!("clang: {e}")),
                        }
                        let _ = std::fs::remove_file(&sfile);
                        let _ = std::fs::remove_file(&obj);
                    }
                }
                Err(m) => {
                    acc.violation("C14:rv64:syntax", format!("rv64 line outside the backend's own pseudo-syntax: {m}"), rj(isa, &m));
                    ok = false;
                }
            }
            // jump-table stride from the text (one instruction = 4 bytes by construction of the pseudo-assembly)
            let stride = <axcut2rv64::Backend as Config<axcut2rv64::config::Register, axcut2rv64::config::Immediate>>::jump_length(1) as u64;
            if stride != 4 {
                let m = format!("rv64: jump_length(1) = {stride}, but every table entry is one 4-byte JAL");
                acc.violation("C14:rv64:table-stride", m.clone(), rj(isa, &m));
                ok = false;
            }
        }
    }
    ok && any
}

/// syntax-only transliteration of the RISC-V backend's pseudo-assembly into GNU syntax
pub fn rv_to_gas(text: &str) -> Result<String, String> {
    let reg = |r: &str| -> Result<String, String> {
        let n: u32 = r.strip_prefix('X').and_then(|d| d.parse().ok()).ok_or_else(|| format!("not a register: {r}"))?;
        if n > 31 {
            return Err(format!("register out of range: {r}"));
        }
        Ok(format!("x{n}"))
    };
    let is_reg = |r: &str| r.starts_with('X') && r[1..].chars().all(|c| c.is_ascii_digit()) && r.len() > 1;
    let mut out = String::from(".text\n");
    for raw in text.lines() {
        let line = raw.trim();
        if line.is_empty() {
            continue;
        }
        if let Some(c) = line.strip_prefix("//") {
            out.push_str(&format!("# {}\n", c.replace('\n', " ")));
            continue;
        }
        if let Some(l) = line.strip_suffix(':') {
            if !l.contains(' ') {
                out.push_str(&format!("{l}:\n"));
                continue;
            }
        }
        let t: Vec<&str> = line.split_whitespace().collect();
        let bad = || format!("{line}");
        let s = match (t[0], t.len()) {
            ("ADD", 4) if is_reg(t[3]) => format!("add {}, {}, {}", reg(t[1])?, reg(t[2])?, reg(t[3])?),
            ("ADD", 4) => format!("addi {}, {}, {}", reg(t[1])?, reg(t[2])?, t[3]),
            ("SUB" | "MUL" | "DIV" | "REM" | "ADDW" | "SUBW" | "MULW" | "DIVW" | "REMW" | "DIVU" | "REMU" | "AND" | "OR" | "XOR" | "SLT" | "SLTU" | "SLL" | "SRL" | "SRA", 4) => format!("{} {}, {}, {}", t[0].to_lowercase(), reg(t[1])?, reg(t[2])?, reg(t[3])?),
            ("JAL", 3) => format!("jal {}, {}", reg(t[1])?, t[2]),
            ("JALR", 4) => format!("jalr {}, {}({})", reg(t[1])?, t[3], reg(t[2])?),
            ("LA", 3) => format!("la {}, {}", reg(t[1])?, t[2]),
            ("LI", 3) => format!("li {}, {}", reg(t[1])?, t[2]),
            ("MV", 3) => format!("mv {}, {}", reg(t[1])?, reg(t[2])?),
            ("LW", 4) => format!("ld {}, {}({})", reg(t[1])?, t[2], reg(t[3])?),
            ("SW", 4) => format!("sd {}, {}({})", reg(t[1])?, t[2], reg(t[3])?),
            // conditional branches reach +-4 KiB only; GNU as relaxes a far one into the inverted
            // branch over a jump, clang 14 does not: write that form directly (branch distance is
            // not what this check judges)
            ("BEQ" | "BNE" | "BLT" | "BLE" | "BGT" | "BGE", 4) => {
                let inv = match t[0] {
                    "BEQ" => "bne",
                    "BNE" => "beq",
                    "BLT" => "bge",
                    "BGE" => "blt",
                    "BLE" => "bgt",
                    _ => "ble",
                };
                format!("{inv} {}, {}, 1f\nj {}\n1:", reg(t[1])?, reg(t[2])?, t[3])
            }
            _ => return Err(bad()),
        };
        out.push_str(&s);
        out.push('\n');
    }
    Ok(out)
}

/// programs aimed at labels and tables: hostile definition names and a type with many constructors
fn directed(k: usize) -> String {
    let names = ["lab1", "lab2", "cleanup", "asm_main", "main_", "share_main_0", "lift_main__1", "lift_main__2", "lift_main__3", "lift_f__5", "print", "x0", "a0", "ret"];
    let n = 2 + k % 39;
    let ctors: Vec<String> = (0..n).map(|i| if i % 3 == 0 { format!("C{i}(x: i64)") } else { format!("C{i}") }).collect();
    let clauses: Vec<String> = (0..n).map(|i| if i % 3 == 0 { format!("C{i}(v) => v + {i}") } else { format!("C{i} => {i}") }).collect();
    let f = names[k % names.len()];
    let g = names[(k / 3 + 1) % names.len()];
    let g = if g == f { "other_def" } else { g };
    format!(
        "data Big {{ {} }}\ndata T3 {{ A, B, C }}\ndef {f}(b: Big): i64 {{ b.case {{ {} }} }}\ndef {g}(t: T3, n: i64): i64 {{ let r: T3 = label k {{ if n == 0 {{ goto k(A) }} else {{ t }} }}; r.case {{ A => {lit}, B => 2, C => 3 }} }}\ndef main(a: i64): i64 {{ println_i64({f}(C{sel}{selarg})); println_i64({g}(B, a)); {g}(C, {lit}) }}\n",
        ctors.join(", "),
        clauses.join(", "),
        lit = [0i64, 1, -1, 4095, 4096, 65535, 65536, 2147483647, 2147483648, -2147483649, 0x1234_5678_9ABC, i64::MAX, i64::MIN + 1][k % 13],
        sel = (k * 7) % n,
        selarg = if ((k * 7) % n) % 3 == 0 { "(5)" } else { "" },
    )
}

/// rename a user definition to the printed name of a lifted / shared definition of the same program
/// the program with one of its definitions renamed to a name the compiler generated for it (not
/// compiled here: C18 judges it under its watchdog)
pub fn clash_text(case: &FunCase) -> Option<String> {
    let st = stages(&case.src).ok()?;
    let generated: Vec<String> = st
        .linear
        .defs
        .iter()
        .filter(|d| d.name.id > 0 || d.name.name.starts_with("share_"))
        .map(|d| if d.name.id == 0 { d.name.name.clone() } else { format!("{}_{}", d.name.name, d.name.id) })
        .collect();
    let target = generated.first()?.clone();
    let victim = case.prog.defs.iter().map(|d| d.name.clone()).find(|n| n != "main" && !generated.contains(n))?;
    let toks = crate::mutate::tokenize(&case.src);
    let out: Vec<crate::mutate::Tok> = toks
        .into_iter()
        .map(|t| match &t {
            crate::mutate::Tok::Word(w) if *w == victim => crate::mutate::Tok::Word(target.clone()),
            _ => t,
        })
        .collect();
    Some(crate::mutate::untokenize(&out))
}

fn clash_variant(case: &FunCase) -> Option<String> {
    let st = stages(&case.src).ok()?;
    let generated: Vec<String> = st
        .linear
        .defs
        .iter()
        .filter(|d| d.name.id > 0 || d.name.name.starts_with("share_"))
        .map(|d| if d.name.id == 0 { d.name.name.clone() } else { format!("{}_{}", d.name.name, d.name.id) })
        .collect();
    let target = generated.first()?.clone();
    let victim = case.prog.defs.iter().map(|d| d.name.clone()).find(|n| n != "main" && !generated.contains(n))?;
    let toks = crate::mutate::tokenize(&case.src);
    let out: Vec<crate::mutate::Tok> = toks
        .into_iter()
        .map(|t| match &t {
            crate::mutate::Tok::Word(w) if *w == victim => crate::mutate::Tok::Word(target.clone()),
            _ => t,
        })
        .collect();
    let text = crate::mutate::untokenize(&out);
    // only if the renamed program is still accepted and the generated name is unchanged
    let st2 = stages(&text).ok()?;
    if st2.linear.defs.iter().filter(|d| (if d.name.id == 0 { d.name.name.clone() } else { format!("{}_{}", d.name.name, d.name.id) }) == target).count() >= 1 {
        Some(text)
    } else {
        None
    }
}

/// Tables are labelled `<type>_<n>` and their entries `<type>_<n>_<xtor>`; with underscores and
/// digits in user names the label of one table can coincide with an entry label of another.  The
/// numbers are process-global, so the program is compiled twice to learn the numbers the next
/// compilation will draw, and then once more with names built from them.
fn label_coincidence(acc: &mut Acc, wd: &mut Workdir) {
    // `c2` is the first constructor / destructor of the second type
    let src = |ctor: &str, ty2: &str, c2: &str, codata: bool| -> String {
        if codata {
            format!(
                "codata T {{ {ctor}: i64, b: i64 }}\ncodata {ty2} {{ {c2}: i64, d: i64 }}\ndef f(n: i64): T {{ new {{ {ctor} => n, b => 2 }} }}\ndef g(n: i64): {ty2} {{ new {{ {c2} => n, d => 4 }} }}\ndef main(): i64 {{ println_i64((f(1).{ctor}) + (g(3).d)); 0 }}\n"
            )
        } else {
            format!(
                "data T {{ {ctor}, B }}\ndata {ty2} {{ {c2}, D }}\ndef f(t: T): i64 {{ t.case {{ {ctor} => 1, B => 2 }} }}\ndef g(u: {ty2}): i64 {{ u.case {{ {c2} => 3, D => 4 }} }}\ndef main(): i64 {{ println_i64(f({ctor}) + g(D)); 0 }}\n"
            )
        }
    };
    let numbers = |text: &str, ty2: &str| -> Option<(usize, usize)> {
        let mut n1 = None;
        let mut n2 = None;
        for l in text.lines() {
            let Some(l) = l.trim().strip_suffix(':') else { continue };
            if let Some(d) = l.strip_prefix("T_") {
                if let Ok(n) = d.parse::<usize>() {
                    n1.get_or_insert(n);
                }
            }
            if let Some(d) = l.strip_prefix(&format!("{ty2}_")) {
                if let Ok(n) = d.parse::<usize>() {
                    n2.get_or_insert(n);
                }
            }
        }
        Some((n1?, n2?))
    };
    // table label against entry label (`T_n1` + `A_n2` = `T_n1_A` + `n2`), then entry label against
    // entry label (`T_n1` + `A_n2_Z` = `T_n1_A_n2` + `Z`)
    for (codata, entries) in [(false, false), (true, false), (false, true), (true, true)] {
        let (a, z, c) = if codata { ("a", "z", "c") } else { ("A", "Z", "C") };
        let names = |n1: usize, n2: usize| -> (String, String, String) {
            if entries { (format!("{a}_{n2}_{z}"), format!("T_{n1}_{a}"), z.to_string()) } else { (format!("{a}_{n2}"), format!("T_{n1}_{a}"), c.to_string()) }
        };
        let (c0, t0, c2) = names(0, 0);
        let mut seen = Vec::new();
        for _ in 0..2 {
            let Ok(st) = stages(&src(&c0, &t0, &c2, codata)) else { return };
            let Ok(asm) = pipeline::x86(st.linear) else { return };
            let Some(n) = numbers(&asm.text, &t0) else {
                acc.count("label_coincidence_numbers_not_found");
                return;
            };
            seen.push(n);
        }
        let d = seen[1].0 - seen[0].0;
        let (n1, n2) = (seen[1].0 + d, seen[1].1 + d);
        let (ctor, ty2, c2) = names(n1, n2);
        let text = src(&ctor, &ty2, &c2, codata);
        acc.evaluations += 1;
        acc.count("label_coincidence_programs");
        let what = if entries { format!("entry label {ty2}_{n2}_{c2} aimed at the entry label T_{n1}_{ctor}") } else { format!("table label {ty2}_{n2} aimed at the entry label T_{n1}_{ctor}") };
        judge(acc, wd, &text, &what, true);
    }
}

pub fn run(ctx: &Ctx, acc: &mut Acc) {
    let mut wd = Workdir::new(&format!("c14-{}", ctx.shard));
    if ctx.shard % 4 == 0 {
        label_coincidence(acc, &mut wd);
    }
    // the hand-written programs of the repository and the built-in ones
    for (k, (name, src)) in super::corpus::all_sources().iter().enumerate() {
        if k % ctx.nshards != ctx.shard {
            continue;
        }
        acc.evaluations += 1;
        if judge(acc, &mut wd, src, &format!("corpus {name}"), true) {
            acc.count("corpus_programs_judged");
            acc.nontrivial(crate::rng::hash_str(src));
        }
    }
    let max_cases: u64 = if ctx.quick() { 2_000 } else { 100_000_000 };
    let mut i = 0u64;
    while ctx.time_left() && i < max_cases {
        let seed = ctx.case_seed(i);
        i += 1;
        acc.evaluations += 1;
        if i % 4 == 0 {
            let k = (seed % 1000) as usize;
            let src = directed(k);
            if judge(acc, &mut wd, &src, &format!("directed k={k}"), true) {
                acc.nontrivial(crate::rng::hash_str(&src));
            }
            continue;
        }
        let case = gen_fun_case(seed, EffectMode::Anywhere, |p, rng| {
            p.naming = if rng.chance(2, 3) { NamePolicy::Hostile } else { NamePolicy::Colliding };
            p.boundary_lits = rng.chance(2, 3);
            p.big_xtors = rng.chance(1, 2);
            p.many_params = rng.chance(1, 3);
        });
        // assembling costs ~20 ms: do it for every program in thorough mode, every second one in quick mode
        let assemble = !ctx.quick() || i % 2 == 0;
        if judge(acc, &mut wd, &case.src, &format!("gen_fun seed={seed}"), assemble) {
            acc.nontrivial(case_hash(&case));
            if acc.samples.len() < 2 {
                acc.sample(J::obj().with("src", J::s(case.src.clone())));
            }
            // second pass: give a user definition the printed name of a compiler-generated definition
            if let Some(variant) = clash_variant(&case) {
                acc.evaluations += 1;
                acc.count("generated_name_reuse_variants");
                if judge(acc, &mut wd, &variant, &format!("gen_fun seed={seed} with a definition renamed to a generated name"), false) {
                    acc.nontrivial(crate::rng::hash_str(&variant));
                }
            }
        }
    }
    acc.add("programs", i);
}

pub fn replay(payload: &J, acc: &mut Acc) {
    let src = payload.get("src").and_then(|s| s.as_str()).unwrap_or("");
    let mut wd = Workdir::new("c14-replay");
    acc.evaluations += 1;
    judge(acc, &mut wd, src, "replay", true);
}
