//! The hand-written programs that ship with the repository (examples/, testsuite/end_to_end/,
//! testsuite/success_check/) as additional inputs of the stage and backend monitors.  Their
//! recorded `expected` output is an oracle that is independent of every machine in this harness;
//! the repository's own `testsuite` target, which would compare against it, cannot run in this
//! sandbox (missing benchmarks submodule), so nothing else exercises these programs end to end.

use super::backend::{self, LinCase};
use super::chain::*;
use super::{Acc, Ctx};
use crate::emu::EmuConfig;
use crate::json::J;
use crate::native::{self, BuildErr, Workdir};
use crate::pipeline;
use std::time::Duration;

pub struct CorpusProg {
    pub name: String,
    pub src: String,
    pub args: Vec<i64>,
    /// stdout the repository's own end-to-end suite expects (with the final newline)
    pub expected: Option<Vec<u8>>,
}

fn unescape(s: &str) -> String {
    let mut out = String::new();
    let mut it = s.chars();
    while let Some(c) = it.next() {
        if c == '\\' {
            match it.next() {
                Some('n') => out.push('\n'),
                Some('t') => out.push('\t'),
                Some('"') => out.push('"'),
                Some('\\') => out.push('\\'),
                Some(o) => {
                    out.push('\\');
                    out.push(o)
                }
                None => out.push('\\'),
            }
        } else {
            out.push(c);
        }
    }
    out
}

/// the two keys of an `.args` file (a tiny subset of TOML)
fn parse_args_file(text: &str) -> Option<(Vec<i64>, Vec<u8>)> {
    let mut args = None;
    let mut expected = None;
    for line in text.lines() {
        let Some((k, v)) = line.split_once('=') else { continue };
        let (k, v) = (k.trim(), v.trim());
        if k == "test_args" {
            let inner = v.strip_prefix('[')?.strip_suffix(']')?;
            let mut a = Vec::new();
            for part in inner.split(',') {
                let p = part.trim().trim_matches('"');
                if p.is_empty() {
                    continue;
                }
                a.push(p.parse::<i64>().ok()?);
            }
            args = Some(a);
        } else if k == "expected" {
            let inner = v.strip_prefix('"')?.strip_suffix('"')?;
            let mut e = unescape(inner);
            e.push('\n');
            expected = Some(e.into_bytes());
        }
    }
    Some((args?, expected?))
}

/// Valid programs of kinds the generator cannot produce (its instance sets must stay finite):
/// non-regular data and codata types used at finite depth, mutually recursive polymorphic types,
/// type parameters swapped in the recursion, functions stored in non-regular data.  (name, source,
/// expected stdout, optionally prefixed by `args|`).  The first two call `main` like an ordinary
/// function (the translation treats `main` specially).
pub const BUILTIN: &[(&str, &str, &str)] = &[
    (
        "builtin/main-called-from-another-definition",
        "def helper(n: i64): i64 { 1 + main(n - 1) }\ndef main(n: i64): i64 { if n <= 0 { println_i64(0); 0 } else { let r: i64 = helper(n); println_i64(r); r } }\n",
        "3|0\n1\n2\n3\n",
    ),
    (
        "builtin/main-defined-before-its-caller",
        "def main(n: i64): i64 { println_i64(n); countdown(n) }\ndef countdown(n: i64): i64 { if n <= 0 { 0 } else { main(n - 1) } }\n",
        "2|2\n1\n0\n",
    ),
    (
        "builtin/empty-data-type-passed-through",
        "data Void { }\ndef absurd(v: Void): Void { v }\ndef main(): i64 { println_i64(1); 0 }\n",
        "1\n",
    ),
    (
        "builtin/empty-codata-type",
        "codata Unit { }\ndef u(x: Unit): Unit { x }\ndef mk(): Unit { new { } }\ndef main(): i64 { let k: Unit = u(mk()); println_i64(2); 0 }\n",
        "2\n",
    ),
    (
        "builtin/empty-polymorphic-type-bound-by-a-conditional",
        "data Never[A] { }\ndef f(n: Never[i64], c: i64): Never[i64] { let x: Never[i64] = if c == 0 { n } else { n }; x }\ndef main(): i64 { println_i64(3); 0 }\n",
        "3\n",
    ),
    (
        "builtin/main-calls-itself",
        "def main(n: i64, acc: i64): i64 { if n <= 0 { println_i64(acc); acc } else { main(n - 1, acc + n) } }\n",
        "4 0|10\n",
    ),
    (
        "builtin/nested-data",
        "data Nest[A] { Flat(x: A), Deep(xs: Nest[Nest[A]]) }\ndef f(n: Nest[i64]): i64 { n.case[i64] { Flat(x) => x, Deep(xs) => g(xs) } }\ndef g(n: Nest[Nest[i64]]): i64 { n.case[Nest[i64]] { Flat(x) => f(x), Deep(xs) => 7 } }\ndef main(): i64 { println_i64(f(Deep(Flat(Flat(5))))); 0 }\n",
        "5\n",
    ),
    (
        "builtin/nested-codata",
        "data Pair[A, B] { Tup(a: A, b: B) }\ncodata Grow[A] { here: A, next: Grow[Pair[A, A]] }\ndef mk2(p: Pair[i64, i64]): Grow[Pair[i64, i64]] { new { here => p, next => exit 3 } }\ndef mk(n: i64): Grow[i64] { new { here => n, next => mk2(Tup(n, n)) } }\ndef main(): i64 { println_i64(mk(1).next[i64].here[Pair[i64, i64]].case[i64, i64] { Tup(a, b) => a + b }); 0 }\n",
        "2\n",
    ),
    (
        "builtin/mutually-recursive-types",
        "data Rose[A] { R(x: A, cs: Forest[A]) }\ndata Forest[A] { FNil, FCons(t: Rose[A], f: Forest[A]) }\ndef sumr(r: Rose[i64]): i64 { r.case[i64] { R(x, cs) => x + sumf(cs) } }\ndef sumf(f: Forest[i64]): i64 { f.case[i64] { FNil => 0, FCons(t, g) => sumr(t) + sumf(g) } }\ndef main(): i64 { println_i64(sumr(R(1, FCons(R(2, FNil), FNil)))); 0 }\n",
        "3\n",
    ),
    (
        "builtin/swapped-parameters",
        "data Sw[A, B] { L(a: A, r: Sw[B, A]), E }\ndef len(s: Sw[i64, Sw[i64, i64]]): i64 { s.case[i64, Sw[i64, i64]] { L(a, r) => 1 + len2(r), E => 0 } }\ndef len2(s: Sw[Sw[i64, i64], i64]): i64 { s.case[Sw[i64, i64], i64] { L(a, r) => 1 + len(r), E => 0 } }\ndef main(): i64 { println_i64(len(L(1, L(E, L(2, E))))); 0 }\n",
        "3\n",
    ),
    (
        "builtin/function-in-nested-data",
        "codata Fun[A, B] { apply(x: A): B }\ndata Wrap[A] { W(f: Fun[A, Wrap[Wrap[A]]]), Stop }\ndef main(): i64 { println_i64(W(new { apply(x) => Stop }).case[i64] { W(f) => f.apply[i64, Wrap[Wrap[i64]]](1).case[Wrap[i64]] { W(g) => 1, Stop => 2 }, Stop => 3 }); 0 }\n",
        "2\n",
    ),
];

pub fn load() -> Vec<CorpusProg> {
    let mut out = Vec::new();
    for (name, src, expected) in BUILTIN {
        // "a b|stdout": arguments of main in front of the expected output
        let (args, expected) = match expected.split_once('|') {
            Some((a, e)) => (a.split_whitespace().map(|x| x.parse().unwrap()).collect(), e),
            None => (vec![], *expected),
        };
        out.push(CorpusProg { name: name.to_string(), src: src.to_string(), args, expected: Some(expected.as_bytes().to_vec()) });
    }
    for dir in ["/repo/examples", "/repo/testsuite/end_to_end", "/repo/benchmarks/suite"] {
        let Ok(rd) = std::fs::read_dir(dir) else { continue };
        let mut names: Vec<_> = rd.flatten().map(|e| e.path()).filter(|p| p.is_dir()).collect();
        names.sort();
        for p in names {
            let name = p.file_name().unwrap().to_string_lossy().to_string();
            let Ok(src) = std::fs::read_to_string(p.join(format!("{name}.sc"))) else { continue };
            let parsed = std::fs::read_to_string(p.join(format!("{name}.args"))).ok().and_then(|t| parse_args_file(&t));
            let (args, expected) = match parsed {
                Some((a, e)) => (a, Some(e)),
                None => continue,
            };
            out.push(CorpusProg { name: format!("{}/{name}", dir.trim_start_matches("/repo/")), src, args, expected });
        }
    }
    out
}

/// every `.sc` file below examples/ and testsuite/ (name, text), sorted
pub fn all_sources() -> Vec<(String, String)> {
    fn walk(dir: &std::path::Path, out: &mut Vec<(String, String)>) {
        let Ok(rd) = std::fs::read_dir(dir) else { return };
        let mut ps: Vec<_> = rd.flatten().map(|e| e.path()).collect();
        ps.sort();
        for p in ps {
            if p.is_dir() {
                walk(&p, out);
            } else if p.extension().map(|e| e == "sc").unwrap_or(false) {
                if let Ok(t) = std::fs::read_to_string(&p) {
                    out.push((p.to_string_lossy().trim_start_matches("/repo/").to_string(), t));
                }
            }
        }
    }
    let mut out: Vec<(String, String)> = BUILTIN.iter().map(|(n, s, _)| (n.to_string(), s.to_string())).collect();
    for d in ["/repo/examples", "/repo/testsuite/end_to_end", "/repo/testsuite/success_check", "/repo/testsuite/fail_check", "/repo/benchmarks/suite"] {
        walk(std::path::Path::new(d), &mut out);
    }
    out
}

fn mine(ctx: &Ctx, idx: usize) -> bool {
    idx % ctx.nshards == ctx.shard
}

/// C01: the native executable prints exactly what the repository's own expectation file says
pub fn c01(ctx: &Ctx, acc: &mut Acc, wd: &mut Workdir) {
    for (idx, p) in load().iter().enumerate() {
        if !mine(ctx, idx) {
            continue;
        }
        let Some(expected) = &p.expected else { continue };
        acc.evaluations += 1;
        let replay = |d: &str| {
            J::obj()
                .with("kind", J::s("corpus-native"))
                .with("name", J::s(p.name.clone()))
                .with("src", J::s(p.src.clone()))
                .with("args", args_json(&p.args))
                .with("expected_stdout", J::s(String::from_utf8_lossy(expected).to_string()))
                .with("detail", J::s(d))
        };
        let asm = match stages(&p.src).and_then(|st| pipeline::x86(st.linear)) {
            Ok(a) => a,
            Err(e) => {
                if e.is_capacity() {
                    acc.discard("capacity limit in a stage");
                } else {
                    acc.violation(format!("C01:corpus:{}:no-executable", p.name), format!("{}: no executable: {}", p.name, e.describe()), replay(&e.describe()));
                }
                continue;
            }
        };
        let exe = match wd.build_x86(&asm.text, asm.nargs, None) {
            Ok(e) => e,
            Err(BuildErr::Assemble(m)) => {
                acc.violation(format!("C01:corpus:{}:assemble", p.name), format!("{}: assembler rejects the emitted file", p.name), replay(&m));
                continue;
            }
            Err(BuildErr::Infra(m)) => {
                acc.infra(format!("build: {m}"));
                continue;
            }
        };
        let mut cmd = std::process::Command::new(&exe);
        for a in &p.args {
            cmd.arg(a.to_string());
        }
        match native::run_exe(&mut cmd, Duration::from_secs(60)) {
            Ok(r) if r.timed_out => acc.discard("native run of a corpus program exceeded the watchdog (inconclusive)"),
            Ok(r) => {
                acc.count("corpus_native_runs");
                acc.add("native_stdout_bytes_compared", expected.len() as u64);
                if &r.stdout != expected {
                    let what = format!(
                        "{}: native stdout {:?} (status {:?}, signal {:?}) differs from the recorded expectation {:?}",
                        p.name,
                        String::from_utf8_lossy(&r.stdout).chars().take(80).collect::<String>(),
                        r.status,
                        r.signal,
                        String::from_utf8_lossy(expected).chars().take(80).collect::<String>()
                    );
                    acc.violation(format!("C01:corpus:{}", p.name), what, replay(""));
                } else {
                    acc.nontrivial(crate::rng::hash_str(&p.src));
                }
            }
            Err(e) => acc.infra(format!("run: {e}")),
        }
        let _ = std::fs::remove_file(&exe);
    }
}

/// argument tuples tried for a corpus program: the recorded one and two neighbours
fn arg_variants(p: &CorpusProg) -> Vec<Vec<i64>> {
    let mut v = vec![p.args.clone()];
    if !p.args.is_empty() {
        v.push(p.args.iter().map(|a| a.saturating_sub(1)).collect());
        v.push(p.args.iter().map(|a| (a / 2).max(0)).collect());
    }
    v
}

/// C03 / C04 / C05 / C12: the middle-end monitors on the corpus
pub fn middle(ctx: &Ctx, acc: &mut Acc) {
    use super::middle::*;
    for (idx, p) in load().iter().enumerate() {
        if !mine(ctx, idx) {
            continue;
        }
        let origin = format!("corpus {}", p.name);
        let variants = arg_variants(p);
        let mut any = false;
        match ctx.prop.as_str() {
            "C03" => {
                if let Ok(core) = pipeline::front(&p.src).and_then(pipeline::to_core) {
                    for a in &variants {
                        acc.evaluations += 1;
                        any |= c03_judge(acc, &core, a, &p.src, &origin);
                    }
                }
            }
            "C04" => {
                if let Ok(f) = pipeline::front(&p.src).and_then(pipeline::to_core).and_then(pipeline::focus) {
                    for a in &variants {
                        acc.evaluations += 1;
                        any |= c04_judge(acc, &f, a, &p.src, &origin);
                    }
                }
            }
            "C05" => {
                if let Ok(s) = pipeline::front(&p.src).and_then(pipeline::to_core).and_then(pipeline::focus).and_then(pipeline::shrink) {
                    if crate::ty_axcut::check_named(&s).is_ok() {
                        any |= c05_judge(acc, &s, &variants, &p.src, &origin);
                    }
                }
            }
            "C12" => {
                acc.evaluations += 1;
                any |= c12_judge(acc, &p.src, &origin);
            }
            _ => {}
        }
        if any {
            acc.count("corpus_programs_judged");
            acc.nontrivial(crate::rng::hash_str(&p.src));
        }
    }
}

/// C06-C10, C13: the emulators with all monitors on the corpus
pub fn backend(ctx: &Ctx, acc: &mut Acc, cfg: &EmuConfig) {
    let prop = ctx.prop.as_str();
    let isas = backend::isas_for(prop);
    for (idx, p) in load().iter().enumerate() {
        if !mine(ctx, idx) {
            continue;
        }
        let Ok(st) = stages(&p.src) else { continue };
        let mut any = false;
        for a in arg_variants(p) {
            for isa in &isas {
                acc.evaluations += 1;
                let c = LinCase { linear: &st.linear, args: &a, origin: format!("corpus {}", p.name), src: Some(&p.src) };
                any |= backend::judge_linear(prop, *isa, acc, &c, cfg);
            }
        }
        if any {
            acc.count("corpus_programs_judged");
            acc.nontrivial(crate::rng::hash_str(&p.src));
        }
    }
}
