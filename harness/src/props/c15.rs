//! C15 — the type checker accepts exactly the well-typed programs: well-typed-by-construction
//! programs must be accepted; certainly ill-typed single edits of them must be rejected.

use super::chain::*;
use super::{Acc, Ctx};
use crate::apr::{self, Naming, Site, Ty, T};
use crate::gen_fun::{EffectMode, NamePolicy};
use crate::json::J;
use crate::pipeline::{self, StageErr};
use crate::rng::Rng;

pub const CLASSES: &[&str] = &[
    "argument-count-minus-one",
    "argument-count-plus-one",
    "integer-where-object-expected",
    "object-where-integer-expected",
    "constructor-of-another-data-type",
    "unbound-variable",
    "unbound-covariable",
    "unbound-definition",
    "unbound-constructor",
    "unbound-destructor",
    "unbound-type",
    "missing-clause",
    "duplicated-clause",
    "foreign-clause",
    "binder-count-minus-one",
    "binder-count-plus-one",
    "type-argument-count",
    "covariable-as-term",
    "variable-as-goto-target",
    "label-shadowing-a-variable-used-as-term",
    "variable-shadowing-a-label-used-as-target",
    "duplicate-definition",
    "duplicate-type",
    "duplicate-xtor",
    "duplicate-parameter",
    "duplicate-type-parameter",
    "wrong-return-type",
    "ill-formed-field-type-arity",
    "ill-formed-field-type-unknown",
    "type-parameter-applied-to-arguments",
    "variable-used-outside-its-scope",
];

fn splice(text: &str, a: usize, b: usize, with: &str) -> String {
    format!("{}{}{}", &text[..a], with, &text[b..])
}

/// text of a closed term of some declared data type (None if the program has none)
fn some_object_literal(p: &apr::Prog) -> Option<String> {
    for (i, inst) in p.insts.iter().enumerate() {
        let t = &p.templates[inst.tmpl];
        if t.is_data && inst.xtors[0].fields.iter().all(|(cns, ty)| !*cns && *ty == Ty::I64) {
            let args: Vec<String> = inst.xtors[0].fields.iter().map(|_| "0".to_string()).collect();
            let _ = i;
            return Some(if args.is_empty() { t.xtors[0].name.clone() } else { format!("{}({})", t.xtors[0].name, args.join(", ")) });
        }
    }
    None
}

/// the tail of a body decides its type iff it is one of these forms
fn body_type_is_determined(t: &T) -> bool {
    match t {
        T::Let { body, .. } => body_type_is_determined(body),
        T::Print { next, .. } => body_type_is_determined(next),
        T::Lit(_) | T::Op(..) | T::Var(_) | T::Ctor { .. } | T::New { .. } | T::Call { .. } => true,
        _ => false,
    }
}

/// apply one mutation of the given class; None if the class has no applicable site
pub fn mutate(p: &apr::Prog, text: &str, sites: &[Site], class: &str, rng: &mut Rng) -> Option<String> {
    let pick = |v: Vec<&Site>, rng: &mut Rng| -> Option<Site> {
        if v.is_empty() { None } else { Some(v[rng.below(v.len())].clone()) }
    };
    match class {
        "argument-count-minus-one" => {
            let s = pick(sites.iter().filter(|s| matches!(s, Site::ArgList { present: true, n, .. } if *n >= 1)).collect(), rng)?;
            let Site::ArgList { open, close, n, last_start, .. } = s else { return None };
            if n == 1 {
                // `f(x)` -> `f()` ; for xtors `K(x)` -> `K()`
                Some(splice(text, open + 1, close, ""))
            } else {
                // remove ", last"
                let before = text[..last_start].rfind(',')?;
                Some(splice(text, before, close, ""))
            }
        }
        "argument-count-plus-one" => {
            let s = pick(sites.iter().filter(|s| matches!(s, Site::ArgList { .. })).collect(), rng)?;
            let Site::ArgList { close, present, n, insert_at, .. } = s else { return None };
            if !present {
                Some(splice(text, insert_at, insert_at, "(0)"))
            } else if n == 0 {
                Some(splice(text, close, close, "0"))
            } else {
                Some(splice(text, close, close, ", 0"))
            }
        }
        "integer-where-object-expected" => {
            let s = pick(sites.iter().filter(|s| matches!(s, Site::ObjArg(..))).collect(), rng)?;
            let Site::ObjArg(a, b, _) = s else { return None };
            Some(splice(text, a, b, "7"))
        }
        "object-where-integer-expected" => {
            let lit = some_object_literal(p)?;
            let s = pick(sites.iter().filter(|s| matches!(s, Site::IntArg(..))).collect(), rng)?;
            let Site::IntArg(a, b) = s else { return None };
            Some(splice(text, a, b, &lit))
        }
        "constructor-of-another-data-type" => {
            // an argument of data type U is replaced by a closed constructor term of a different data type T,
            // preferably one instantiated at the same type arguments
            let cands: Vec<&Site> = sites.iter().filter(|s| matches!(s, Site::ObjArg(_, _, t) if p.is_data(*t))).collect();
            let s = pick(cands, rng)?;
            let Site::ObjArg(a, b, Ty::Inst(u)) = s else { return None };
            let closed = |i: usize| -> Option<String> {
                let inst = &p.insts[i];
                let t = &p.templates[inst.tmpl];
                if !t.is_data {
                    return None;
                }
                let x = inst.xtors.iter().position(|x| x.fields.iter().all(|(cns, ty)| !*cns && *ty == Ty::I64))?;
                let args: Vec<String> = inst.xtors[x].fields.iter().map(|_| "0".to_string()).collect();
                Some(if args.is_empty() { t.xtors[x].name.clone() } else { format!("{}({})", t.xtors[x].name, args.join(", ")) })
            };
            let same_args: Vec<usize> = (0..p.insts.len()).filter(|i| *i != u && p.insts[*i].tmpl != p.insts[u].tmpl && p.insts[*i].args == p.insts[u].args && closed(*i).is_some()).collect();
            let any: Vec<usize> = (0..p.insts.len()).filter(|i| *i != u && p.insts[*i].tmpl != p.insts[u].tmpl && closed(*i).is_some()).collect();
            let t = if !same_args.is_empty() { same_args[rng.below(same_args.len())] } else if !any.is_empty() { any[rng.below(any.len())] } else { return None };
            Some(splice(text, a, b, &closed(t)?))
        }
        "unbound-variable" => {
            let s = pick(sites.iter().filter(|s| matches!(s, Site::VarUse(..))).collect(), rng)?;
            let Site::VarUse(a, b) = s else { return None };
            Some(splice(text, a, b, "unbound_variable_q"))
        }
        "unbound-covariable" => {
            let s = pick(sites.iter().filter(|s| matches!(s, Site::CovarUse(..))).collect(), rng)?;
            let Site::CovarUse(a, b) = s else { return None };
            Some(splice(text, a, b, "unbound_covariable_q"))
        }
        "unbound-definition" => {
            let s = pick(sites.iter().filter(|s| matches!(s, Site::DefUse(..))).collect(), rng)?;
            let Site::DefUse(a, b) = s else { return None };
            Some(splice(text, a, b, "unbound_definition_q"))
        }
        "unbound-constructor" => {
            let s = pick(sites.iter().filter(|s| matches!(s, Site::CtorUse(..))).collect(), rng)?;
            let Site::CtorUse(a, b) = s else { return None };
            Some(splice(text, a, b, "UnboundConstructorQ"))
        }
        "unbound-destructor" => {
            let s = pick(sites.iter().filter(|s| matches!(s, Site::DtorUse(..))).collect(), rng)?;
            let Site::DtorUse(a, b) = s else { return None };
            Some(splice(text, a, b, "unbound_destructor_q"))
        }
        "unbound-type" => {
            let s = pick(sites.iter().filter(|s| matches!(s, Site::TypeUse(..))).collect(), rng)?;
            let Site::TypeUse(a, b) = s else { return None };
            // keep the type arguments, replace the head name
            let end = text[a..b].find('[').map(|i| a + i).unwrap_or(b);
            Some(splice(text, a, end, "UnboundTypeQ"))
        }
        "missing-clause" | "duplicated-clause" | "foreign-clause" => {
            let s = pick(sites.iter().filter(|s| matches!(s, Site::Clauses { ranges, .. } if !ranges.is_empty())).collect(), rng)?;
            let Site::Clauses { ranges, is_case, inst } = s else { return None };
            let k = rng.below(ranges.len());
            let (a, b) = ranges[k];
            match class {
                "missing-clause" => {
                    if ranges.len() == 1 {
                        Some(splice(text, a, b, ""))
                    } else if k + 1 < ranges.len() {
                        // remove clause and the following comma
                        let comma = text[b..].find(',')? + b;
                        Some(splice(text, a, comma + 1, ""))
                    } else {
                        let comma = text[..a].rfind(',')?;
                        Some(splice(text, comma, b, ""))
                    }
                }
                "duplicated-clause" => {
                    let c = text[a..b].to_string();
                    Some(splice(text, b, b, &format!(", {c}")))
                }
                _ => {
                    // a clause for an xtor of another declared type of the same polarity
                    let own = p.insts[inst].tmpl;
                    let other = p.templates.iter().enumerate().find(|(i, t)| *i != own && t.is_data == is_case)?;
                    let x = &other.1.xtors[0];
                    let binders: Vec<String> = (0..x.fields.len()).map(|i| format!("fq{i}")).collect();
                    let head = if binders.is_empty() { x.name.clone() } else { format!("{}({})", x.name, binders.join(", ")) };
                    let body_start = text[a..b].find("=>")? + a;
                    let body = text[body_start..b].to_string();
                    Some(splice(text, b, b, &format!(", {head} {body}")))
                }
            }
        }
        "binder-count-minus-one" => {
            let s = pick(sites.iter().filter(|s| matches!(s, Site::Binders { present: true, .. })).collect(), rng)?;
            let Site::Binders { open, close, n, .. } = s else { return None };
            if n == 1 {
                Some(splice(text, open, close + 1, ""))
            } else {
                let comma = text[open..close].rfind(',')? + open;
                Some(splice(text, comma, close, ""))
            }
        }
        "binder-count-plus-one" => {
            let s = pick(sites.iter().filter(|s| matches!(s, Site::Binders { .. })).collect(), rng)?;
            let Site::Binders { close, present, insert_at, .. } = s else { return None };
            if present { Some(splice(text, close, close, ", extra_binder_q")) } else { Some(splice(text, insert_at, insert_at, "(extra_binder_q)")) }
        }
        "type-argument-count" => {
            let s = pick(sites.iter().filter(|s| matches!(s, Site::TypeArgs { .. })).collect(), rng)?;
            let Site::TypeArgs { a, b, present } = s else { return None };
            if !present {
                Some(splice(text, a, a, "[i64]"))
            } else if rng.chance(1, 2) {
                Some(splice(text, b - 1, b - 1, ", i64"))
            } else {
                // drop the last type argument (top level comma)
                let inner = &text[a + 1..b - 1];
                let mut depth = 0;
                let mut cut = None;
                for (i, ch) in inner.char_indices() {
                    match ch {
                        '[' => depth += 1,
                        ']' => depth -= 1,
                        ',' if depth == 0 => cut = Some(i),
                        _ => {}
                    }
                }
                match cut {
                    Some(i) => Some(splice(text, a + 1 + i, b - 1, "")),
                    None => Some(splice(text, a, b, "")),
                }
            }
        }
        "covariable-as-term" => {
            // inside the body of `label a { .. }` use `a` where an integer argument is expected
            let labels: Vec<&Site> = sites.iter().filter(|s| matches!(s, Site::LabelBody { .. })).collect();
            let l = pick(labels, rng)?;
            let Site::LabelBody { name, a, b } = l else { return None };
            let inner: Vec<&Site> = sites.iter().filter(|s| matches!(s, Site::IntArg(x, y) if *x >= a && *y <= b)).collect();
            let s = pick(inner, rng)?;
            let Site::IntArg(x, y) = s else { return None };
            Some(splice(text, x, y, &name))
        }
        "variable-as-goto-target" => {
            // inside the body of `let x: .. = ..; body` put `goto x(0)` where an integer argument is expected
            let lets: Vec<&Site> = sites.iter().filter(|s| matches!(s, Site::LetBody { .. })).collect();
            let l = pick(lets, rng)?;
            let Site::LetBody { name, a, b } = l else { return None };
            let inner: Vec<&Site> = sites.iter().filter(|s| matches!(s, Site::IntArg(x, y) if *x >= a && *y <= b)).collect();
            let s = pick(inner, rng)?;
            let Site::IntArg(x, y) = s else { return None };
            Some(splice(text, x, y, &format!("goto {name}(0)")))
        }
        "label-shadowing-a-variable-used-as-term" => {
            // `v` (an integer variable in argument position) -> `label v { v }`: the innermost binding of
            // `v` is now a covariable, which is not a term
            let is_ident = |t: &str| !t.is_empty() && t.chars().all(|c| c.is_alphanumeric() || c == '_') && !t.chars().next().unwrap().is_ascii_digit();
            let cands: Vec<&Site> = sites
                .iter()
                .filter(|s| matches!(s, Site::IntArg(x, y) if is_ident(&text[*x..*y]) && sites.iter().any(|v| matches!(v, Site::VarUse(a, b) if a == x && b == y))))
                .collect();
            let s = pick(cands, rng)?;
            let Site::IntArg(x, y) = s else { return None };
            let v = text[x..y].to_string();
            Some(splice(text, x, y, &format!("label {v} {{ {v} }}")))
        }
        "variable-shadowing-a-label-used-as-target" => {
            // `label c { body }` -> `label c { let c: i64 = 0; body }` where every occurrence of `c` in the
            // body is a use of the label: the innermost binding of `c` is now a variable, not a consumer
            let ident_char = |c: char| c.is_alphanumeric() || c == '_';
            let mut cands = Vec::new();
            for s in sites {
                let Site::LabelBody { name, a, b } = s else { continue };
                let body = &text[*a..*b];
                let mut occ = 0usize;
                let mut from = 0usize;
                while let Some(i) = body[from..].find(name.as_str()) {
                    let st = from + i;
                    let en = st + name.len();
                    let left_ok = body[..st].chars().next_back().map(|c| !ident_char(c)).unwrap_or(true);
                    let right_ok = body[en..].chars().next().map(|c| !ident_char(c)).unwrap_or(true);
                    if left_ok && right_ok {
                        occ += 1;
                    }
                    from = en;
                }
                let uses = sites.iter().filter(|u| matches!(u, Site::CovarUse(x, y) if *x >= *a && *y <= *b && &text[*x..*y] == name.as_str())).count();
                if occ >= 1 && occ == uses {
                    cands.push((name.clone(), *a));
                }
            }
            if cands.is_empty() {
                return None;
            }
            let (name, a) = cands[rng.below(cands.len())].clone();
            Some(splice(text, a, a, &format!(" let {name}: i64 = 0; ")))
        }
        "duplicate-definition" => {
            let s = pick(sites.iter().filter(|s| matches!(s, Site::DefText { .. })).collect(), rng)?;
            let Site::DefText { a, b, .. } = s else { return None };
            let d = text[a..b].to_string();
            Some(format!("{text}{d}"))
        }
        "duplicate-type" => {
            let s = pick(sites.iter().filter(|s| matches!(s, Site::DeclText { .. })).collect(), rng)?;
            let Site::DeclText { a, b } = s else { return None };
            let d = text[a..b].to_string();
            Some(splice(text, b, b, &d))
        }
        "duplicate-xtor" => {
            let s = pick(sites.iter().filter(|s| matches!(s, Site::XtorDecl { .. })).collect(), rng)?;
            let Site::XtorDecl { a, b } = s else { return None };
            let d = text[a..b].to_string();
            Some(splice(text, b, b, &format!(", {d}")))
        }
        "duplicate-parameter" => {
            let s = pick(sites.iter().filter(|s| matches!(s, Site::Params { n, .. } if *n >= 1)).collect(), rng)?;
            let Site::Params { close, first, .. } = s else { return None };
            let d = text[first.0..first.1].to_string();
            Some(splice(text, close, close, &format!(", {d}")))
        }
        "duplicate-type-parameter" => {
            let s = pick(sites.iter().filter(|s| matches!(s, Site::TypeParams { .. })).collect(), rng)?;
            let Site::TypeParams { b, .. } = s else { return None };
            Some(splice(text, b - 1, b - 1, ", A"))
        }
        "wrong-return-type" => {
            let cands: Vec<&Site> = sites.iter().filter(|s| matches!(s, Site::RetType { def, .. } if body_type_is_determined(&p.defs[*def].body) && p.defs[*def].name != "main")).collect();
            let s = pick(cands, rng)?;
            let Site::RetType { a, b, def } = s else { return None };
            if p.defs[def].ret == Ty::I64 {
                // needs some declared type
                let other = p.insts.iter().position(|_| true)?;
                Some(splice(text, a, b, &p.ty_str(Ty::Inst(other))))
            } else {
                Some(splice(text, a, b, "i64"))
            }
        }
        "ill-formed-field-type-arity" => {
            let s = pick(sites.iter().filter(|s| matches!(s, Site::FieldType { is_app: true, .. })).collect(), rng)?;
            let Site::FieldType { a, b, .. } = s else { return None };
            let t = &text[a..b];
            if let Some(i) = t.find('[') {
                // drop all type arguments
                Some(splice(text, a + i, b, ""))
            } else {
                Some(splice(text, b, b, "[i64]"))
            }
        }
        "ill-formed-field-type-unknown" => {
            let s = pick(sites.iter().filter(|s| matches!(s, Site::FieldType { is_app: true, .. })).collect(), rng)?;
            let Site::FieldType { a, b, .. } = s else { return None };
            let t = &text[a..b];
            if let Some(i) = t.find('[') {
                Some(splice(text, a + i, b, "[BogusTypeQ]"))
            } else {
                None
            }
        }
        "type-parameter-applied-to-arguments" => {
            // `fst: A` -> `fst: A[i64]` inside the declaration that binds the type parameter A
            let s = pick(sites.iter().filter(|s| matches!(s, Site::TypeParamUse(..))).collect(), rng)?;
            let Site::TypeParamUse(_, b) = s else { return None };
            Some(splice(text, b, b, if rng.chance(1, 2) { "[i64]" } else { "[i64, i64]" }))
        }
        "variable-used-outside-its-scope" => {
            // a variable bound by a pattern or a `let` replaces a variable use outside the clause / the
            // body of the `let` (preferably in a sibling clause).  Names are unique, which is checked
            // here again: the name must not occur anywhere outside its scope.
            let ident_char = |c: char| c.is_alphanumeric() || c == '_';
            let occurrences_outside = |name: &str, sa: usize, sb: usize| -> usize {
                let mut n = 0;
                let mut from = 0;
                while let Some(i) = text[from..].find(name) {
                    let st = from + i;
                    let en = st + name.len();
                    let left_ok = text[..st].chars().next_back().map(|c| !ident_char(c)).unwrap_or(true);
                    let right_ok = text[en..].chars().next().map(|c| !ident_char(c)).unwrap_or(true);
                    if left_ok && right_ok && !(st >= sa && en <= sb) {
                        n += 1;
                    }
                    from = en;
                }
                n
            };
            // (name, scope start, scope end, sibling clauses)
            let mut binders: Vec<(String, usize, usize, Vec<(usize, usize)>)> = Vec::new();
            for s in sites {
                match s {
                    Site::LetBody { name, a, b } => {
                        if occurrences_outside(name, *a, *b) == 1 {
                            binders.push((name.clone(), *a, *b, Vec::new()));
                        }
                    }
                    Site::Clauses { ranges, .. } => {
                        for (k, (ca, cb)) in ranges.iter().enumerate() {
                            let Some(arrow) = text[*ca..*cb].find("=>").map(|i| ca + i) else { continue };
                            let list = sites.iter().filter_map(|t| match t {
                                Site::Binders { open, close, present: true, .. } if *open >= *ca && *close < arrow => Some((*open, *close)),
                                _ => None,
                            });
                            let Some((o, c)) = list.min() else { continue };
                            let siblings: Vec<(usize, usize)> = ranges.iter().enumerate().filter(|(j, _)| *j != k).map(|(_, r)| *r).collect();
                            for n in text[o + 1..c].split(',') {
                                let n = n.trim();
                                if !n.is_empty() && n.chars().all(ident_char) && occurrences_outside(n, *ca, *cb) == 0 {
                                    binders.push((n.to_string(), *ca, *cb, siblings.clone()));
                                }
                            }
                        }
                    }
                    _ => {}
                }
            }
            if binders.is_empty() {
                return None;
            }
            let (name, sa, sb, siblings) = binders[rng.below(binders.len())].clone();
            let outside: Vec<&Site> = sites.iter().filter(|s| matches!(s, Site::VarUse(x, y) if !(*x >= sa && *y <= sb))).collect();
            let in_sibling: Vec<&Site> = outside.iter().copied().filter(|s| matches!(s, Site::VarUse(x, y) if siblings.iter().any(|(a, b)| x >= a && y <= b))).collect();
            let s = if !in_sibling.is_empty() && rng.chance(2, 3) { pick(in_sibling, rng)? } else { pick(outside, rng)? };
            let Site::VarUse(x, y) = s else { return None };
            Some(splice(text, x, y, &name))
        }
        _ => None,
    }
}

pub fn run(ctx: &Ctx, acc: &mut Acc) {
    let max_cases: u64 = if ctx.quick() { 4_000 } else { 100_000_000 };
    let mut i = 0u64;
    while ctx.time_left() && i < max_cases {
        let seed = ctx.case_seed(i);
        i += 1;
        let mode = [EffectMode::Anywhere, EffectMode::Sequenced, EffectMode::PureArgs][(seed % 3) as usize];
        // (1) acceptance under every naming policy
        let case = gen_fun_case(seed, mode, |_, _| {});
        acc.evaluations += 1;
        match pipeline::front(&case.src) {
            Ok(_) => {
                acc.count("well_typed_accepted");
                acc.nontrivial(case_hash(&case));
            }
            Err(StageErr::Panic { msg, .. }) => {
                acc.violation("C15:panic", format!("the checker panics on a well-typed program: {msg}"), J::obj().with("kind", J::s("accept")).with("src", J::s(case.src.clone())));
            }
            Err(e) => {
                let what = e.describe();
                let cls: String = what.split('{').next().unwrap_or("").trim().to_string();
                acc.violation(
                    format!("C15:rejected:{cls}"),
                    format!("a program that is well-typed by construction is rejected: {what}"),
                    J::obj().with("kind", J::s("accept")).with("src", J::s(case.src.clone())).with("origin", J::s(format!("gen_fun seed={seed} {}", case.profile.describe()))),
                );
                continue;
            }
        }
        // (2) rejection of single ill-typed edits (unique names: no shadowing can make an edit legal)
        let mcase = if case.profile.naming == NamePolicy::Unique { case } else { gen_fun_case(seed, mode, |p, _| p.naming = NamePolicy::Unique) };
        if pipeline::front(&mcase.src).is_err() {
            continue;
        }
        let (text, sites) = apr::print_prog_sites(&mcase.prog, Naming::Policy);
        let mut rng = Rng::new(seed ^ 0xC15);
        for class in CLASSES {
            let Some(mutant) = mutate(&mcase.prog, &text, &sites, class, &mut rng) else {
                acc.count(&format!("class_not_applicable {class}"));
                continue;
            };
            acc.evaluations += 1;
            match pipeline::front(&mutant) {
                Err(StageErr::Panic { msg, .. }) => {
                    acc.violation(
                        format!("C15:mutant-panics:{class}"),
                        format!("ill-typed edit ({class}) makes the checker panic instead of reporting: {msg}"),
                        J::obj().with("kind", J::s("reject")).with("class", J::s(*class)).with("src", J::s(mutant)).with("original", J::s(text.clone())),
                    );
                }
                Err(StageErr::Parse(_)) => {
                    // a syntax error is not the diagnostic this class is about
                    acc.discard(&format!("edit of class {class} is not syntactically valid (harness)"));
                }
                Err(_) => {
                    acc.count(&format!("rejected {class}"));
                    acc.nontrivial(crate::rng::hash_str(&mutant));
                }
                Ok(_) => {
                    acc.violation(
                        format!("C15:accepted:{class}"),
                        format!("a certainly ill-typed program (single edit of class {class}) is accepted"),
                        J::obj().with("kind", J::s("reject")).with("class", J::s(*class)).with("src", J::s(mutant)).with("original", J::s(text.clone())),
                    );
                }
            }
        }
        if acc.samples.len() < 2 {
            if let Some(m) = mutate(&mcase.prog, &text, &sites, "argument-count-plus-one", &mut rng) {
                acc.sample(J::obj().with("class", J::s("argument-count-plus-one")).with("mutant", J::s(m)));
            }
        }
    }
    acc.add("programs", i);
}

pub fn replay(payload: &J, acc: &mut Acc) {
    let src = payload.get("src").and_then(|s| s.as_str()).unwrap_or("");
    let kind = payload.get("kind").and_then(|s| s.as_str()).unwrap_or("");
    acc.evaluations += 1;
    let r = pipeline::front(src);
    match (kind, r) {
        ("accept", Err(e)) => acc.violation("C15:replay", format!("still rejected: {}", e.describe()), J::obj()),
        ("reject", Ok(_)) => acc.violation("C15:replay", "still accepted", J::obj()),
        ("reject", Err(StageErr::Panic { msg, .. })) => acc.violation("C15:replay", format!("still panics: {msg}"), J::obj()),
        _ => {}
    }
}
