//! C19, randomly composed scalable families.  A *shape* is a short periodic pattern of links; a
//! link combines one branching expression (conditional, match over 3 or 5 constructors, label with
//! a jump, object selected by a conditional, known match, call with a conditional argument) with
//! one way of attaching the rest of the program (sequenced by `let`, nested in a branch or clause,
//! as an operand, after a print, as a call argument, behind a closure, behind a destructor).  The
//! rest occurs exactly once per link and every link mentions earlier results through identifiers
//! only, so the source is linear in the number k of links for every shape.

use crate::rng::Rng;

pub const BRANCHES: usize = 12;
pub const GLUES: usize = 27;

#[derive(Clone, Debug)]
pub struct Shape {
    pub links: Vec<(usize, usize)>,
    /// main has no parameter and nothing else is in scope at the start: statements may be closed
    pub closed: bool,
    /// the chain is the body of a helper definition (its continuation is a covariable, not the
    /// `exit` of main)
    pub in_helper: bool,
}

impl Shape {
    pub fn random(rng: &mut Rng) -> Shape {
        let p = 1 + rng.below(3);
        Shape { links: (0..p).map(|_| (rng.below(BRANCHES), rng.below(GLUES))).collect(), closed: rng.chance(1, 3), in_helper: rng.chance(1, 2) }
    }
    pub fn name(&self) -> String {
        let parts: Vec<String> = self.links.iter().map(|(b, g)| format!("{}/{}", BRANCH_NAMES[*b], GLUE_NAMES[*g])).collect();
        format!("random shape [{}]{}{}", parts.join(" ; "), if self.closed { " in a closed main" } else { "" }, if self.in_helper { " (body of a helper definition)" } else { "" })
    }
    pub fn to_code(&self) -> String {
        format!("{}{}{}", if self.in_helper { "h:" } else { "" }, if self.closed { "c:" } else { "" }, self.links.iter().map(|(b, g)| format!("{b}.{g}")).collect::<Vec<_>>().join(","))
    }
    pub fn from_code(s: &str) -> Option<Shape> {
        let (in_helper, s) = match s.strip_prefix("h:") {
            Some(r) => (true, r),
            None => (false, s),
        };
        let (closed, s) = match s.strip_prefix("c:") {
            Some(r) => (true, r),
            None => (false, s),
        };
        let mut links = Vec::new();
        for part in s.split(',') {
            let (b, g) = part.split_once('.')?;
            let (b, g) = (b.parse().ok()?, g.parse().ok()?);
            if b >= BRANCHES || g >= GLUES {
                return None;
            }
            links.push((b, g));
        }
        if links.is_empty() { None } else { Some(Shape { links, closed, in_helper }) }
    }
}

pub const BRANCH_NAMES: [&str; BRANCHES] =
    ["if", "if-zero", "match3", "match5", "label-goto", "call-of-if", "known-match", "object-by-if", "match-of-match", "if-with-jumping-label-branch", "if-with-exit-branch", "match-with-jumping-clauses"];
pub const GLUE_NAMES: [&str; GLUES] =
    [
    "let", "else-branch", "clause", "operand", "print", "call-argument", "closure", "destructor", "objects-by-match", "label-result",
    "one-clause-match-of-conditional", "one-clause-match-of-match", "body-of-applied-object", "bound-position", "scrutinee-argument", "condition", "goto-argument", "unused-let-of-call", "unused-let-of-branch", "let-then-operation-over-rest", "let-then-constructor-over-rest",
    "let-of-destructor-result-of-data-type", "let-of-destructor-result-then-clause",
    "clause-of-match-on-label-block", "argument-of-destructor-on-label-block",
    "argument-of-destructor-on-conditional", "argument-of-destructor-on-match",
];

const DECLS: &str = "data P2 { Tup(a: i64, b: i64) }\ndata T3 { A, B, C }\ndata T5 { K1, K2(x: i64), K3(x: i64, y: i64), K4, K5(t: T3) }\ncodata Obj3 { m1: i64, m2(x: i64): i64, m3: Obj3 }\ncodata Fun { ap(x: i64): i64 }\ncodata Mk { get(x: i64): T3, get5(x: i64): T5 }\ndef mkr(n: i64): Mk { new { get(x) => mk(x + n), get5(x) => mk5(x + n) } }\ndef mk(n: i64): T3 { if n == 0 { A } else { if n == 1 { B } else { C } } }\ndef mk5(n: i64): T5 { if n == 0 { K1 } else { if n == 1 { K2(n) } else { if n == 2 { K3(n, n) } else { if n == 3 { K4 } else { K5(mk(n)) } } } } }\ndef obj(n: i64): Obj3 { new { m1 => n, m2(x) => x + n, m3 => obj(n + 1) } }\ndef id(x: i64): i64 { x }\ndef add3(a: i64, b: i64, c: i64): i64 { a + (b + c) }\n";

/// an integer expression that branches; `x` is an identifier
fn branch(b: usize, i: usize, x: &str) -> String {
    match b {
        0 => format!("(if {x} < {i} {{ {x} + 1 }} else {{ {x} - {i} }})"),
        1 => format!("(if {x} == 0 {{ {i} }} else {{ {x} }})"),
        2 => format!("(mk({x}).case {{ A => {x} + 1, B => {i}, C => {x} }})"),
        3 => format!("(mk5({x}).case {{ K1 => 1, K2(p{i}) => p{i}, K3(p{i}, q{i}) => p{i} + q{i}, K4 => {x}, K5(u{i}) => u{i}.case {{ A => 1, B => 2, C => 3 }} }})"),
        4 => format!("(label l{i} {{ if {x} == {i} {{ goto l{i}({i}) }} else {{ {x} }} }})"),
        5 => format!("id(if {x} <= {i} {{ {x} }} else {{ {i} }})"),
        6 => format!("(B.case {{ A => {x}, B => {x} + {i}, C => 0 }})"),
        7 => format!("((if {x} == {i} {{ obj({x}) }} else {{ obj({i}) }}).m2({x}))"),
        8 => format!("((mk({x}).case {{ A => B, B => C, C => A }}).case {{ A => {i}, B => {x}, C => 1 }})"),
        // branches that leave through a jump: a label block that always jumps to its own label
        // (which is a use of the continuation), an exit (which is not)
        9 => format!("(if {x} < {i} {{ label l{i} {{ goto l{i}({i}) }} }} else {{ {x} + 1 }})"),
        10 => format!("(if {x} == {i} {{ exit {i} }} else {{ {x} }})"),
        _ => format!("(mk({x}).case {{ A => label l{i} {{ goto l{i}({x}) }}, B => exit {i}, C => {x} + 1 }})"),
    }
}

/// attach the rest of the program to link i; `prev` is the identifier holding the previous result,
/// `rest(new_prev)` renders the remaining links
fn glue(g: usize, b: usize, i: usize, prev: &str, rest: &dyn Fn(&str) -> String) -> String {
    let be = branch(b, i, prev);
    let v = format!("v{i}");
    match g {
        0 => format!("let {v}: i64 = {be};\n  {}", rest(&v)),
        1 => format!("let {v}: i64 = {be};\n  if {v} == {i} {{ {i} }} else {{ {} }}", rest(&v)),
        2 => format!("let {v}: i64 = {be};\n  let t{i}: T3 = mk({v});\n  t{i}.case {{ A => {i}, B => {v}, C => {} }}", rest(&v)),
        3 => format!("let {v}: i64 = {prev} + {i};\n  {be} + ({})", rest(&v)),
        4 => format!("println_i64({be});\n  let {v}: i64 = {prev} + {i};\n  {}", rest(&v)),
        5 => format!("let {v}: i64 = {prev} + {i};\n  add3({be}, {i}, {})", rest(&v)),
        6 => format!("let f{i}: Fun = new {{ ap(w{i}) => {} }};\n  let {v}: i64 = f{i}.ap({prev});\n  {}", branch(b, i, &format!("w{i}")), rest(&v)),
        7 => format!("let o{i}: Obj3 = if {prev} == {i} {{ obj({prev}) }} else {{ obj({i}) }};\n  let {v}: i64 = o{i}.m2({be});\n  {}", rest(&v)),
        8 => format!(
            "let f{i}: Fun = mk({prev}).case {{ A => new {{ ap(w{i}) => w{i} + {i} }}, B => new {{ ap(w{i}) => {} }}, C => new {{ ap(w{i}) => {prev} }} }};\n  let {v}: i64 = f{i}.ap({prev});\n  {}",
            branch(b, i, &format!("w{i}")),
            rest(&v)
        ),
        9 => format!("let {v}: i64 = label r{i} {{ if {prev} == {i} {{ goto r{i}({be}) }} else {{ {be} }} }};\n  {}", rest(&v)),
        // the rest inside the only clause of a match whose scrutinee is directly a conditional / a match
        10 => format!("let {v}: i64 = {be};\n  (if {v} == {i} {{ Tup({v}, {i}) }} else {{ Tup({i}, {v}) }}).case {{ Tup(c{i}, d{i}) => {} }}", rest(&format!("c{i}"))),
        11 => format!("let {v}: i64 = {be};\n  (mk({v}).case {{ A => Tup({v}, {i}), B => Tup({i}, {v}), C => Tup({v}, {v}) }}).case {{ Tup(c{i}, d{i}) => {} }}", rest(&format!("c{i}"))),
        // the rest as the body of an object that is applied at once
        12 => format!("new {{ ap(w{i}) => {} }}.ap({be})", rest(&format!("w{i}"))),
        // the rest in bound (non-tail) position: its continuation is the remainder of this link
        13 => format!("let {v}: i64 = {be};\n  let r{i}: i64 = ({});\n  r{i} + {v}", rest(&v)),
        // the rest as the argument of a call that is scrutinised / as a condition / as a jump argument
        14 => format!("let {v}: i64 = {be};\n  mk(({})).case {{ A => {i}, B => {v}, C => 0 }}", rest(&v)),
        15 => format!("let {v}: i64 = {be};\n  if ({}) < {i} {{ {v} }} else {{ {i} }}", rest(&v)),
        16 => format!("let {v}: i64 = {be};\n  label g{i} {{ if {v} == {i} {{ {i} }} else {{ goto g{i}(({})) }} }}", rest(&v)),
        // results that are never used (the continuation may mention no variable at all)
        17 => format!("let t{i}: T3 = mk({i});\n  {}", rest(prev)),
        18 => format!("let {v}: i64 = {be};\n  {}", rest(prev)),
        // a let over the branching expression whose body is an operation / a constructor application
        // with the rest as operand / argument
        19 => format!("let {v}: i64 = {be};\n  {v} + ({})", rest(&v)),
        20 => format!("let {v}: i64 = {be};\n  Tup({v}, {}).case {{ Tup(c{i}, d{i}) => c{i} + d{i} }}", rest(&v)),
        // a value of a data type with several constructors that is the result of a destructor of a
        // variable (the producer side of the cut is a bare invoke), the rest after / inside its match
        21 => format!("let m{i}: Mk = mkr({i});\n  let t{i}: T3 = m{i}.get({be});\n  let {v}: i64 = t{i}.case {{ A => 1, B => {prev}, C => 3 }};\n  {}", rest(&v)),
        // the scrutinee / the receiver is directly a label block that reaches its label in two places
        23 => format!("let {v}: i64 = {be};\n  (label s{i} {{ if {v} == {i} {{ goto s{i}(mk({i})) }} else {{ mk({v}) }} }}).case {{ A => {i}, B => {v}, C => {} }}", rest(&v)),
        24 => format!("let {v}: i64 = {be};\n  (label s{i} {{ if {v} == {i} {{ goto s{i}(obj({i})) }} else {{ obj({v}) }} }}).m2(({}))", rest(&v)),
        // the rest as the argument of a destructor whose receiver is directly a conditional / a match
        // of codata type (seed C19-r14: the consumer that is shared is a destructor with arguments)
        25 => format!("let {v}: i64 = {be};\n  (if {v} == {i} {{ obj({v}) }} else {{ obj({i}) }}).m2(({}))", rest(&v)),
        26 => format!("let {v}: i64 = {be};\n  (mk({v}).case {{ A => obj({v}), B => obj({i}), C => obj(1) }}).m2(({}))", rest(&v)),
        _ => format!("let m{i}: Mk = mkr({i});\n  let {v}: i64 = {be};\n  let t{i}: T5 = m{i}.get5({v});\n  t{i}.case {{ K1 => 1, K2(p{i}) => p{i}, K3(p{i}, q{i}) => {v}, K4 => {}, K5(u{i}) => 5 }}", rest(&v)),
    }
}

pub fn program(shape: &Shape, k: usize) -> String {
    fn go(shape: &Shape, i: usize, k: usize, prev: &str) -> String {
        if i == k {
            return if shape.closed { format!("{prev} + 1") } else { format!("{prev} + a") };
        }
        let (b, g) = shape.links[i % shape.links.len()];
        glue(g, b, i, prev, &|np: &str| go(shape, i + 1, k, np))
    }
    match (shape.closed, shape.in_helper) {
        (true, false) => format!("{DECLS}def main(): i64 {{\n  {}\n}}\n", go(shape, 0, k, "7")),
        (false, false) => format!("{DECLS}def main(a: i64): i64 {{\n  {}\n}}\n", go(shape, 0, k, "a")),
        (true, true) => format!("{DECLS}def helper(): i64 {{\n  {}\n}}\ndef main(): i64 {{ helper() }}\n", go(shape, 0, k, "7")),
        (false, true) => format!("{DECLS}def helper(a: i64): i64 {{\n  {}\n}}\ndef main(a: i64): i64 {{ helper(a) }}\n", go(shape, 0, k, "a")),
    }
}
