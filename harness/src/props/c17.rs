//! C17 — compilation is deterministic: same text, several fresh processes (fresh hash seeds,
//! different environments), and after other compilations in the same process (modulo numbering of
//! generated labels).

use super::chain::*;
use super::{Acc, Ctx};
use crate::gen_fun::EffectMode;
use crate::json::J;
use crate::pipeline;
use std::collections::{BTreeMap, HashMap};
use std::path::Path;
use std::process::Command;

pub const STAGES: [&str; 7] = ["core", "focused", "shrunk", "linearized", "x86_64", "aarch64", "rv64"];

/// all printable stage outputs of one source text (in this process)
pub fn print_stages(src: &str) -> BTreeMap<String, String> {
    use printer::Print;
    let mut out = BTreeMap::new();
    let Ok(checked) = pipeline::front(src) else {
        out.insert("error".into(), "front".into());
        return out;
    };
    let Ok(core) = pipeline::to_core(checked) else { return out };
    out.insert("core".into(), core.print_to_string(None));
    let Ok(fs) = pipeline::focus(core) else { return out };
    out.insert("focused".into(), fs.print_to_string(None));
    let Ok(sh) = pipeline::shrink(fs) else { return out };
    out.insert("shrunk".into(), sh.print_to_string(None));
    let Ok(lin) = pipeline::linearize(sh) else { return out };
    out.insert("linearized".into(), lin.print_to_string(None));
    if let Ok(a) = pipeline::x86(lin.clone()) {
        out.insert("x86_64".into(), a.text);
    }
    if let Ok(a) = pipeline::a64(lin.clone()) {
        out.insert("aarch64".into(), a.text);
    }
    if let Ok(a) = pipeline::rv64(lin) {
        out.insert("rv64".into(), a.text);
    }
    out
}

/// rename every defined label by its order of first definition (removes the numbering of
/// generated labels, keeps the structure)
pub fn normalize_labels(asm: &str) -> String {
    let mut map: HashMap<String, usize> = HashMap::new();
    for line in asm.lines() {
        let t = line.trim();
        if let Some(l) = t.strip_suffix(':') {
            if !l.is_empty() && !l.contains(' ') && !map.contains_key(l) {
                let n = map.len();
                map.insert(l.to_string(), n);
            }
        }
    }
    let mut out = String::with_capacity(asm.len());
    let mut tok = String::new();
    let flush = |tok: &mut String, out: &mut String| {
        if !tok.is_empty() {
            match map.get(tok.as_str()) {
                Some(n) => out.push_str(&format!("@L{n}")),
                None => out.push_str(tok),
            }
            tok.clear();
        }
    };
    for ch in asm.chars() {
        if ch.is_ascii_alphanumeric() || ch == '_' {
            tok.push(ch);
        } else {
            flush(&mut tok, &mut out);
            out.push(ch);
        }
    }
    flush(&mut tok, &mut out);
    // comments mention generated names too; drop them
    out.lines().filter(|l| !l.trim_start().starts_with(';') && !l.trim_start().starts_with("//")).collect::<Vec<_>>().join("\n")
}

fn child_stages(file: &Path, warmups: &[&Path], variant: usize) -> Result<BTreeMap<String, String>, String> {
    let exe = std::env::current_exe().map_err(|e| e.to_string())?;
    let mut cmd = Command::new(exe);
    cmd.arg("printstages").arg(file);
    for w in warmups {
        cmd.arg(w);
    }
    // different environments
    match variant % 4 {
        0 => {}
        1 => {
            cmd.env("RUST_BACKTRACE", "1").env("LANG", "C");
        }
        2 => {
            cmd.current_dir("/").env("HOME", "/nonexistent").env("TZ", "Asia/Tokyo");
        }
        _ => {
            cmd.env_clear().env("PATH", "/usr/bin:/bin").env("SOME_LONG_VARIABLE", "x".repeat(4000));
        }
    }
    let o = cmd.output().map_err(|e| e.to_string())?;
    if !o.status.success() {
        return Err(format!("child exited with {:?}: {}", o.status.code(), String::from_utf8_lossy(&o.stderr).chars().take(300).collect::<String>()));
    }
    let text = String::from_utf8_lossy(&o.stdout);
    let j = crate::json::parse(text.trim()).map_err(|e| format!("child output: {e}"))?;
    let mut m = BTreeMap::new();
    if let J::Obj(o) = j {
        for (k, v) in o {
            if let J::Str(s) = v {
                m.insert(k, s);
            }
        }
    }
    Ok(m)
}

fn first_diff(a: &str, b: &str) -> String {
    for (i, (x, y)) in a.lines().zip(b.lines()).enumerate() {
        if x != y {
            return format!("line {}: {:?} vs {:?}", i + 1, x.chars().take(120).collect::<String>(), y.chars().take(120).collect::<String>());
        }
    }
    format!("lengths {} vs {}", a.len(), b.len())
}

pub fn judge(acc: &mut Acc, src: &str, nproc: usize, dir: &Path, origin: &str, others: &[String]) -> bool {
    let file = dir.join("p.sc");
    if std::fs::write(&file, src).is_err() {
        acc.infra("cannot write scratch file");
        return false;
    }
    let rj = |detail: &str| J::obj().with("kind", J::s("determinism")).with("src", J::s(src)).with("detail", J::s(detail)).with("origin", J::s(origin));
    let mut runs = Vec::new();
    for v in 0..nproc {
        match child_stages(&file, &[], v) {
            Ok(m) => runs.push(m),
            Err(e) => {
                acc.infra(format!("printstages child: {e}"));
                return false;
            }
        }
    }
    acc.add("fresh_processes", nproc as u64);
    for st in STAGES {
        let outs: Vec<Option<&String>> = runs.iter().map(|m| m.get(st)).collect();
        let mut distinct: Vec<&Option<&String>> = Vec::new();
        for o in &outs {
            if !distinct.contains(&o) {
                distinct.push(o);
            }
        }
        acc.max(&format!("max_distinct_outputs_{st}"), distinct.len() as u64);
        if distinct.len() > 1 {
            let d = match (distinct[0], distinct[1]) {
                (Some(a), Some(b)) => first_diff(a, b),
                _ => "stage present in one process and missing in another".into(),
            };
            acc.violation(format!("C17:processes:{st}"), format!("{} distinct outputs of stage {st} over {nproc} fresh processes: {d}", distinct.len()), rj(&d));
            return false;
        }
        if outs[0].is_some() {
            acc.count(&format!("stage_compared_{st}"));
        }
    }
    // history: after compiling other programs first in the same process
    if !others.is_empty() {
        let mut wfiles = Vec::new();
        for (i, o) in others.iter().enumerate() {
            let f = dir.join(format!("w{i}.sc"));
            let _ = std::fs::write(&f, o);
            wfiles.push(f);
        }
        let wrefs: Vec<&Path> = wfiles.iter().map(|p| p.as_path()).collect();
        match child_stages(&file, &wrefs, 0) {
            Ok(m) => {
                acc.count("history_runs");
                for st in STAGES {
                    let (Some(a), Some(b)) = (runs[0].get(st), m.get(st)) else { continue };
                    let same = if matches!(st, "x86_64" | "aarch64" | "rv64") { normalize_labels(a) == normalize_labels(b) } else { a == b };
                    if !same {
                        let d = first_diff(&normalize_labels(a), &normalize_labels(b));
                        acc.violation(format!("C17:history:{st}"), format!("output of stage {st} depends on what was compiled before in the same process: {d}"), rj(&d));
                        return false;
                    }
                }
            }
            Err(e) => acc.infra(format!("printstages child (history): {e}")),
        }
    }
    // the repository's own driver object caches stage results per file: the result of a stage must
    // not depend on which other stages of the same file were requested before
    if !driver_orders(acc, &file, src, origin) {
        return false;
    }
    true
}

/// every (earlier stage, wanted stage) pair on a fresh `driver::Driver` against a fresh driver asked
/// for the wanted stage directly
fn driver_orders(acc: &mut Acc, file: &Path, src: &str, origin: &str) -> bool {
    use printer::Print;
    let path = file.to_path_buf();
    let stage = |d: &mut driver::Driver, k: usize| -> Option<String> {
        let r = crate::pipeline::guarded("driver", std::panic::AssertUnwindSafe(|| match k {
            0 => d.compiled(&path).ok().map(|p| p.print_to_string(None)),
            1 => d.focused(&path).ok().map(|p| p.print_to_string(None)),
            2 => d.shrunk(&path).ok().map(|p| p.print_to_string(None)),
            _ => d.linearized(&path).ok().map(|p| p.print_to_string(None)),
        }));
        r.ok().flatten()
    };
    const NAMES: [&str; 4] = ["compiled", "focused", "shrunk", "linearized"];
    let mut direct: Vec<Option<String>> = Vec::new();
    for k in 0..4 {
        let mut d = driver::Driver::new();
        direct.push(stage(&mut d, k));
    }
    for earlier in 0..4 {
        for wanted in 0..4 {
            if earlier == wanted {
                continue;
            }
            let mut d = driver::Driver::new();
            let _ = stage(&mut d, earlier);
            let got = stage(&mut d, wanted);
            acc.count("driver_request_orders_compared");
            // label numbering is process-global: compare modulo the numbering of generated names
            let same = match (&got, &direct[wanted]) {
                (Some(a), Some(b)) => normalize_labels(a) == normalize_labels(b),
                (None, None) => true,
                _ => false,
            };
            if !same {
                let d = match (&got, &direct[wanted]) {
                    (Some(a), Some(b)) => first_diff(&normalize_labels(a), &normalize_labels(b)),
                    _ => "stage fails in one order and succeeds in the other".into(),
                };
                acc.violation(
                    format!("C17:driver-order:{}", NAMES[wanted]),
                    format!("the {} program of a file differs when the {} program was requested first from the same driver: {d}", NAMES[wanted], NAMES[earlier]),
                    J::obj().with("kind", J::s("determinism")).with("src", J::s(src)).with("detail", J::s(d)).with("origin", J::s(origin)),
                );
                return false;
            }
        }
    }
    true
}

/// the real binary: `scc codegen <file> <backend> --print-ir` in two fresh scratch directories
fn judge_cli(acc: &mut Acc, src: &str, origin: &str) {
    let bin = super::c16::scc_bin();
    if !bin.exists() {
        acc.count("cli_skipped_no_binary");
        return;
    }
    let base = std::env::temp_dir().join(format!("scc-verif-c17-{}", std::process::id()));
    let stub = base.join("stubbin");
    let _ = std::fs::create_dir_all(&stub);
    for tool in ["yasm", "gcc", "as"] {
        let p = stub.join(tool);
        let _ = std::fs::write(&p, "#!/bin/sh\nexit 0\n");
        let _ = Command::new("chmod").arg("+x").arg(&p).status();
    }
    let mut snapshots: Vec<BTreeMap<String, Vec<u8>>> = Vec::new();
    for run in 0..2 {
        let d = base.join(format!("run{run}"));
        let _ = std::fs::remove_dir_all(&d);
        let _ = std::fs::create_dir_all(&d);
        let f = d.join("p.sc");
        let _ = std::fs::write(&f, src);
        let mut snap = BTreeMap::new();
        for backend in ["x86-64", "aarch64", "rv64"] {
            let o = Command::new(&bin)
                .current_dir(&d)
                .env("PATH", format!("{}:/usr/bin:/bin", stub.display()))
                .args(["codegen", "p.sc", backend, "--print-ir"])
                .output();
            match o {
                Ok(o) => {
                    snap.insert(format!("exit:{backend}"), format!("{:?}", o.status.code()).into_bytes());
                }
                Err(e) => {
                    acc.infra(format!("cannot run scc: {e}"));
                    return;
                }
            }
        }
        // collect every generated file
        fn walk(dir: &Path, root: &Path, out: &mut BTreeMap<String, Vec<u8>>) {
            if let Ok(rd) = std::fs::read_dir(dir) {
                for e in rd.flatten() {
                    let p = e.path();
                    if p.is_dir() {
                        walk(&p, root, out);
                    } else if let Ok(b) = std::fs::read(&p) {
                        out.insert(p.strip_prefix(root).unwrap_or(&p).display().to_string(), b);
                    }
                }
            }
        }
        walk(&d.join("target_scc"), &d, &mut snap);
        snapshots.push(snap);
    }
    acc.count("cli_double_runs");
    acc.add("cli_files_compared", snapshots[0].len() as u64);
    if snapshots[0] != snapshots[1] {
        let mut which = String::new();
        for (k, v) in &snapshots[0] {
            if snapshots[1].get(k) != Some(v) {
                which = k.clone();
                break;
            }
        }
        acc.violation(
            format!("C17:cli:{}", which.split('/').nth(1).unwrap_or("")),
            format!("two runs of scc codegen --print-ir in fresh processes produce different files (first difference: {which})"),
            J::obj().with("kind", J::s("determinism-cli")).with("src", J::s(src)).with("origin", J::s(origin)).with("file", J::s(which)),
        );
    }
    // the same stage asked for through another command (another order of requests to the driver)
    // must give the same file: `scc compile|focus|shrink|linearize` vs `scc codegen --print-ir`
    let d = base.join("stages");
    let _ = std::fs::remove_dir_all(&d);
    let _ = std::fs::create_dir_all(&d);
    let _ = std::fs::write(d.join("p.sc"), src);
    for (cmd, dir) in [("linearize", "linearized"), ("shrink", "shrunk"), ("focus", "focused"), ("compile", "compiled")] {
        let o = Command::new(&bin).current_dir(&d).env("PATH", format!("{}:/usr/bin:/bin", stub.display())).env_remove("COLUMNS").env_remove("LINES").args([cmd, "p.sc"]).output();
        let Ok(o) = o else { continue };
        // what the command prints must not depend on the size of the output device: a narrow
        // COLUMNS/LINES in the environment, and a narrow pseudo terminal as standard output
        let narrow = Command::new(&bin).current_dir(&d).env("PATH", format!("{}:/usr/bin:/bin", stub.display())).env("COLUMNS", "37").env("LINES", "5").args([cmd, "p.sc"]).output();
        if let Ok(n) = narrow {
            acc.count("cli_stdout_environments_compared");
            if n.stdout != o.stdout {
                acc.violation(
                    format!("C17:cli-stdout-env:{dir}"),
                    format!("scc {cmd} prints a different {dir} program when COLUMNS=37 LINES=5 are in the environment: {}", first_diff(&String::from_utf8_lossy(&o.stdout), &String::from_utf8_lossy(&n.stdout))),
                    J::obj().with("kind", J::s("determinism-cli")).with("src", J::s(src)).with("origin", J::s(origin)).with("file", J::s(format!("stdout of scc {cmd}"))),
                );
            }
        }
        if Path::new("/usr/bin/script").exists() {
            let line = format!("stty cols 43 rows 7; exec '{}' {cmd} p.sc", bin.display());
            let pty = Command::new("/usr/bin/script")
                .current_dir(&d)
                .env("PATH", format!("{}:/usr/bin:/bin", stub.display()))
                .env_remove("COLUMNS")
                .env_remove("LINES")
                .args(["-qec", &line, "/dev/null"])
                .stdin(std::process::Stdio::null())
                .output();
            match pty {
                Ok(t) if t.status.success() && !t.stdout.is_empty() => {
                    // the terminal turns every newline into carriage return + newline
                    let got = String::from_utf8_lossy(&t.stdout).replace("\r\n", "\n");
                    let want = String::from_utf8_lossy(&o.stdout).to_string();
                    acc.count("cli_stdout_pseudo_terminals_compared");
                    if got != want {
                        acc.violation(
                            format!("C17:cli-stdout-pty:{dir}"),
                            format!("scc {cmd} prints a different {dir} program to a 43-column pseudo terminal than to a pipe: {}", first_diff(&want, &got)),
                            J::obj().with("kind", J::s("determinism-cli")).with("src", J::s(src)).with("origin", J::s(origin)).with("file", J::s(format!("stdout of scc {cmd} on a terminal"))),
                        );
                    }
                }
                _ => acc.count("cli_pseudo_terminal_unavailable"),
            }
        }
        let key = format!("target_scc/{dir}/p.txt");
        let (Some(a), Ok(b)) = (snapshots[0].get(&key), std::fs::read(d.join(&key))) else { continue };
        acc.count("cli_stage_commands_compared");
        if *a != b {
            acc.violation(
                format!("C17:cli-stage:{dir}"),
                format!("scc {cmd} and scc codegen --print-ir write different {dir} programs for the same source: {}", first_diff(&String::from_utf8_lossy(a), &String::from_utf8_lossy(&b))),
                J::obj().with("kind", J::s("determinism-cli")).with("src", J::s(src)).with("origin", J::s(origin)).with("file", J::s(key)),
            );
        }
    }
    let _ = std::fs::remove_dir_all(&base);
}

pub fn run(ctx: &Ctx, acc: &mut Acc) {
    let dir = std::env::temp_dir().join(format!("scc-verif-c17w-{}-{}", ctx.shard, std::process::id()));
    let _ = std::fs::create_dir_all(&dir);
    let nproc = if ctx.quick() { 4 } else { 12 };
    let max_cases: u64 = if ctx.quick() { 160 } else { 1_000_000 };
    let mut i = 0u64;
    let mut previous: Vec<String> = Vec::new();
    // corpus first
    if ctx.shard == 0 {
        if let Ok(rd) = std::fs::read_dir("/repo/examples") {
            for e in rd.flatten() {
                let name = e.file_name().to_string_lossy().to_string();
                let f = e.path().join(format!("{name}.sc"));
                if let Ok(src) = std::fs::read_to_string(&f) {
                    acc.evaluations += 1;
                    if judge(acc, &src, nproc, &dir, &format!("examples/{name}"), &previous) {
                        acc.nontrivial(crate::rng::hash_str(&src));
                    }
                    judge_cli(acc, &src, &format!("examples/{name}"));
                    previous.push(src);
                    if previous.len() > 2 {
                        previous.remove(0);
                    }
                }
            }
        }
    }
    while ctx.time_left() && i < max_cases {
        let seed = ctx.case_seed(i);
        i += 1;
        let case = gen_fun_case(seed, EffectMode::Anywhere, |p, rng| {
            // several type instances: only then does hash-map iteration order matter
            p.n_data = 2 + rng.below(2);
            p.n_codata = 1 + rng.below(2);
            p.poly = true;
        });
        acc.evaluations += 1;
        if judge(acc, &case.src, nproc, &dir, &format!("gen_fun seed={seed}"), &previous) {
            acc.nontrivial(case_hash(&case));
            if acc.samples.len() < 2 {
                acc.sample(J::obj().with("src", J::s(case.src.clone())).with("fresh_processes", J::i(nproc as i64)));
            }
        }
        if seed % 10 == 0 {
            judge_cli(acc, &case.src, &format!("gen_fun seed={seed}"));
        }
        previous.push(case.src.clone());
        if previous.len() > 2 {
            previous.remove(0);
        }
    }
    acc.add("programs", i);
    let _ = std::fs::remove_dir_all(&dir);
}

pub fn replay(payload: &J, acc: &mut Acc) {
    let src = payload.get("src").and_then(|s| s.as_str()).unwrap_or("");
    let dir = std::env::temp_dir().join(format!("scc-verif-c17r-{}", std::process::id()));
    let _ = std::fs::create_dir_all(&dir);
    acc.evaluations += 1;
    judge(acc, src, 12, &dir, "replay", &[]);
    judge_cli(acc, src, "replay");
    let _ = std::fs::remove_dir_all(&dir);
}
