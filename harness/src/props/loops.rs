//! C10 loop families: computations that repeatedly build and drop structures must run in space
//! independent of the number of repetitions (checked as the bounded statement
//! frontier(16n) <= frontier(n) + c on every backend's emulator).

use super::backend::{codegen, emulate, Isa};
use super::{Acc, Ctx};
use crate::emu::EmuConfig;
use crate::json::J;
use crate::pipeline;
use crate::trace::Undefined;

const PRELUDE: &str = "data List { Nil, Cons(x: i64, xs: List) }\ndata Tree { Leaf(v: i64), Node(l: Tree, k: i64, r: Tree) }\ndata Wide { W(a: i64, b: i64, c: i64, d: i64, e: List, f: i64, g: i64) }\ncodata Fun { ap(x: i64): i64 }\ncodata Stream { hd: i64, tl: Stream }\ndef build(n: i64, acc: List): List { if n <= 0 { acc } else { build(n - 1, Cons(n, acc)) } }\ndef sum(l: List, acc: i64): i64 { l.case { Nil => acc, Cons(x, xs) => sum(xs, acc + x) } }\ndef tree(d: i64): Tree { if d <= 0 { Leaf(d) } else { Node(tree(d - 1), d, tree(d - 1)) } }\ndef tsum(t: Tree): i64 { t.case { Leaf(v) => v, Node(l, k, r) => (tsum(l)) + (k + (tsum(r))) } }\ndef from(n: i64): Stream { new { hd => n, tl => from(n + 1) } }\ndef nth(s: Stream, k: i64): i64 { if k <= 0 { s.hd } else { nth(s.tl, k - 1) } }\n";

pub const FAMILIES: &[(&str, &str)] = &[
    ("list built, summed and dropped per iteration", "def go(i: i64, acc: i64): i64 { if i <= 0 { acc } else { go(i - 1, acc + sum(build(12, Nil), 0)) } }\ndef main(n: i64): i64 { go(n, 0) }"),
    ("tree built and folded per iteration", "def go(i: i64, acc: i64): i64 { if i <= 0 { acc } else { go(i - 1, acc + tsum(tree(4))) } }\ndef main(n: i64): i64 { go(n, 0) }"),
    ("shared list used twice then dropped", "def twice(l: List): i64 { (sum(l, 0)) + (sum(l, 1)) }\ndef go(i: i64, acc: i64): i64 { if i <= 0 { acc } else { go(i - 1, acc + twice(build(9, Nil))) } }\ndef main(n: i64): i64 { go(n, 0) }"),
    ("closure created and applied per iteration", "def go(i: i64, acc: i64): i64 { if i <= 0 { acc } else { let f: Fun = new { ap(x) => (x + i) + acc }; go(i - 1, f.ap(i)) } }\ndef main(n: i64): i64 { go(n, 0) }"),
    ("closure capturing a list, dropped unused in one branch", "def go(i: i64, acc: i64): i64 { if i <= 0 { acc } else { let l: List = build(6, Nil); let f: Fun = new { ap(x) => sum(l, x) }; if i % 2 == 0 { go(i - 1, acc + 1) } else { go(i - 1, f.ap(acc)) } } }\ndef main(n: i64): i64 { go(n, 0) }"),
    ("wide (multi-block) object per iteration", "def go(i: i64, acc: i64): i64 { if i <= 0 { acc } else { let w: Wide = W(i, 2, 3, 4, build(3, Nil), 6, 7); go(i - 1, w.case { W(a, b, c, d, e, f, g) => (a + g) + sum(e, acc) }) } }\ndef main(n: i64): i64 { go(n, 0) }"),
    ("stream (by-name codata) walked per iteration", "def go(i: i64, acc: i64): i64 { if i <= 0 { acc } else { go(i - 1, acc + nth(from(i), 5)) } }\ndef main(n: i64): i64 { go(n, 0) }"),
    ("list kept alive across iterations and extended then dropped", "def go(i: i64, keep: List, acc: i64): i64 { if i <= 0 { sum(keep, acc) } else { if i % 8 == 0 { go(i - 1, Nil, acc + sum(keep, 0)) } else { go(i - 1, Cons(i, keep), acc) } } }\ndef main(n: i64): i64 { go(n, Nil, 0) }"),
    ("label/goto early exit dropping a partially consumed list", "def find(l: List, k:cns i64): i64 { l.case { Nil => 0, Cons(x, xs) => if x == 5 { goto k(x) } else { find(xs, k) } } }\ndef go(i: i64, acc: i64): i64 { if i <= 0 { acc } else { go(i - 1, acc + (label k { find(build(10, Nil), k) })) } }\ndef main(n: i64): i64 { go(n, 0) }"),
];

/// Composed loop bodies: object kind x use pattern x number of further live variables.  Every
/// iteration allocates, uses (uniquely, shared, through a closure, not at all) and finally drops
/// its objects, so live data is bounded; the extra parameters put block pointers into spill slots
/// (more than 6 other variables on x86-64, more than 13 on AArch64).
pub fn generated_families() -> Vec<(String, String)> {
    let kinds: [(&str, &str, &str, fn(&str) -> String); 5] = [
        ("list", "List", "build(5, Nil)", |o| format!("{o}.case {{ Nil => 0, Cons(x, xs) => x + sum(xs, 0) }}")),
        ("4-field object", "Quad", "Q(i, acc, 3, 4)", |o| format!("{o}.case {{ Q(a, b, c, d) => (a + b) + (c + d) }}")),
        ("7-field object", "Wide", "W(i, 2, 3, 4, build(2, Nil), 6, acc)", |o| format!("{o}.case {{ W(a, b, c, d, e, f, g) => (a + g) + sum(e, f) }}")),
        ("tree", "Tree", "tree(2)", |o| format!("{o}.case {{ Leaf(v) => v, Node(l, k, r) => k + ((tsum(l)) + (tsum(r))) }}")),
        ("closure", "Fun", "new { ap(x) => (x + i) + acc }", |o| format!("{o}.ap(i)")),
    ];
    let mut out = Vec::new();
    for (kname, ty, ctor, m) in kinds {
        for pattern in 0..6usize {
            for extra in [0usize, 5, 8, 13] {
                let ps: Vec<String> = (0..extra).map(|j| format!("p{j}")).collect();
                let params: String = ps.iter().map(|p| format!(", {p}: i64")).collect();
                let pass: String = ps.iter().map(|p| format!(", {p}")).collect();
                let sum_ps = ps.iter().fold("acc".to_string(), |a, p| format!("({a}) + {p}"));
                let init: String = (0..extra).map(|j| format!(", {}", j + 1)).collect();
                let mo = m("o");
                let (pname, body) = match pattern {
                    0 => ("used once", mo.clone()),
                    1 => ("used twice (first use while shared)", format!("({mo}) + ({mo})")),
                    2 => ("used while shared, then dropped or used", format!("let s: i64 = {mo};\n    if i % 2 == 0 {{ s }} else {{ s + ({mo}) }}")),
                    3 => ("used while shared, then passed to a function that ignores it", format!("let s: i64 = {mo};\n    ignore{ty}(o, s)")),
                    4 => ("captured by a closure applied twice or dropped", format!("let f: Fun = new {{ ap(x) => x + ({mo}) }};\n    if i % 3 == 0 {{ 0 }} else {{ (f.ap(1)) + (f.ap(2)) }}")),
                    _ => ("two objects alive", format!("let o2: {ty} = {ctor};\n    ({mo}) + ({})", m("o2"))),
                };
                let src = format!(
                    "{PRELUDE}data Quad {{ Q(a: i64, b: i64, c: i64, d: i64) }}\ndef ignore{ty}(o: {ty}, s: i64): i64 {{ s }}\ndef go(i: i64, acc: i64{params}): i64 {{\n  if i <= 0 {{ {sum_ps} }} else {{\n    let o: {ty} = {ctor};\n    let v: i64 = {body};\n    go(i - 1, (acc + v) % 1000{pass})\n  }}\n}}\ndef main(n: i64): i64 {{ go(n, 0{init}) }}\n"
                );
                out.push((format!("{kname}, {pname}, {extra} further live variables"), src));
            }
        }
    }
    out
}

pub fn run(ctx: &Ctx, acc: &mut Acc, isas: &[Isa]) {
    let base: i64 = if ctx.quick() { 8 } else { 400 };
    let mut all: Vec<(String, String)> = FAMILIES.iter().map(|(n, b)| (n.to_string(), format!("{PRELUDE}{b}\n"))).collect();
    all.extend(generated_families());
    for (fi, (name, src)) in all.iter().enumerate() {
        if fi % ctx.nshards != ctx.shard {
            continue;
        }
        let name = &name.as_str();
        let src = src.clone();
        let st = match pipeline::all_stages(&src) {
            Ok(s) => s,
            Err(e) => {
                acc.infra(format!("loop family '{name}' does not compile: {}", e.describe()));
                continue;
            }
        };
        for isa in isas {
            let asm = match codegen(*isa, st.linear.clone()) {
                Ok(a) => a,
                Err(e) => {
                    if e.is_capacity() {
                        acc.discard(&format!("{}: capacity limit", isa.name()));
                    } else {
                        acc.infra(format!("loop family '{name}' on {}: {}", isa.name(), e.describe()));
                    }
                    continue;
                }
            };
            let mut frontiers = Vec::new();
            let mut ok = true;
            for mult in [1i64, 4, 16] {
                if !ctx.time_left() {
                    ok = false;
                    break;
                }
                let n = base * mult;
                let cfg = EmuConfig { heap_bytes: 1 << 22, max_instructions: 2_000_000_000, enforce_shape: false, ..Default::default() };
                acc.evaluations += 1;
                match emulate(*isa, &asm.text, &[n], &cfg) {
                    Ok(r) => {
                        acc.add("statement_boundaries_checked", r.stats.heap_walks);
                        acc.add("loop_instructions", r.stats.instructions);
                        let rj = J::obj().with("kind", J::s("loop-family")).with("family", J::s(*name)).with("isa", J::s(isa.name())).with("src", J::s(src.clone())).with("args", super::chain::args_json(&[n]));
                        if let Some(v) = &r.violation {
                            if super::backend::owns("C10", &v.kind, &v.msg) {
                                acc.violation(format!("C10:{}:{:?}", isa.name(), v.kind), format!("{} family '{name}' n={n}: {}", isa.name(), v.msg), rj);
                            } else {
                                acc.count(&format!("events_owned_by_other_properties_{:?}", v.kind));
                            }
                            ok = false;
                            break;
                        }
                        match r.outcome.end {
                            Ok(_) => {}
                            Err(Undefined::Heap) => {
                                acc.violation(format!("C10:{}:heap-exhausted", isa.name()), format!("{} family '{name}' n={n}: a 4 MiB heap is exhausted although live data is bounded", isa.name()), rj);
                                ok = false;
                                break;
                            }
                            Err(e) => {
                                acc.discard(&format!("loop run undefined: {e:?}"));
                                ok = false;
                                break;
                            }
                        }
                        frontiers.push((n, r.stats.max_frontier_blocks, r.stats.max_reachable_blocks));
                        acc.nontrivial(crate::rng::hash_str(&format!("{name}:{}:{n}", isa.name())));
                    }
                    Err(e) => {
                        acc.infra(format!("emulator: {e}"));
                        ok = false;
                        break;
                    }
                }
            }
            if ok && frontiers.len() == 3 {
                let c = 6;
                acc.count("loop_families_compared");
                acc.max("max_loop_frontier_blocks", frontiers[2].1);
                if frontiers[2].1 > frontiers[0].1 + c || frontiers[1].1 > frontiers[0].1 + c {
                    acc.violation(
                        format!("C10:{}:growth", isa.name()),
                        format!("{} family '{name}': heap frontier grows with the number of iterations: {:?} (n, frontier blocks, peak reachable)", isa.name(), frontiers),
                        J::obj().with("kind", J::s("loop-family")).with("family", J::s(*name)).with("isa", J::s(isa.name())).with("src", J::s(src.clone())),
                    );
                }
                if acc.samples.len() < 3 {
                    acc.sample(J::obj().with("family", J::s(*name)).with("isa", J::s(isa.name())).with("n_frontier_peakreachable", J::Arr(frontiers.iter().map(|(n, f, r)| J::s(format!("{n}:{f}:{r}"))).collect())));
                }
            }
        }
    }
}
