//! C13 directed workload: a print with L live variables (L = 0..20, integers / objects / mixed),
//! 0..5 entry arguments; every variable is used after the print so that a register lost across
//! the call is observed.

pub fn program(l: usize, kinds: usize, printed: usize, k: usize) -> String {
    // kinds: 0 all integers, 1 all objects, 2 mixed, 3 closures mixed in
    let params: Vec<String> = (0..k).map(|i| format!("a{i}: i64")).collect();
    let mut body = String::new();
    let seed_expr = if k > 0 { "a0".to_string() } else { "7".to_string() };
    let is_obj = |i: usize| match kinds {
        0 => false,
        1 => true,
        2 => i % 2 == 1,
        _ => i % 3 == 1,
    };
    let is_clo = |i: usize| kinds == 3 && i % 3 == 2;
    for i in 0..l {
        if is_clo(i) {
            body.push_str(&format!("  let v{i}: Fun = new {{ ap(x) => (x + {i}) + {seed_expr} }};\n"));
        } else if is_obj(i) {
            body.push_str(&format!("  let v{i}: Box = B({seed_expr} + {i}, {i});\n"));
        } else {
            body.push_str(&format!("  let v{i}: i64 = {seed_expr} + {};\n", 100 + i));
        }
    }
    // what is printed: an integer variable if there is one at that index, else a literal expression
    let p = if l == 0 { None } else { Some(printed % l) };
    match p {
        Some(p) if !is_obj(p) && !is_clo(p) => body.push_str(&format!("  println_i64(v{p});\n")),
        _ => body.push_str(&format!("  println_i64({seed_expr});\n")),
    }
    for j in 0..k {
        body.push_str(&format!("  print_i64(a{j});\n"));
    }
    // use everything afterwards
    let mut sum = "0".to_string();
    for i in 0..l {
        let term = if is_clo(i) {
            format!("(v{i}.ap({i}))")
        } else if is_obj(i) {
            format!("(v{i}.case {{ B(x, y) => x + y }})")
        } else {
            format!("v{i}")
        };
        sum = format!("{term} + ({sum})");
    }
    body.push_str(&format!("  let r: i64 = {sum};\n  println_i64(r);\n  r % 200\n"));
    format!("data Box {{ B(x: i64, y: i64) }}\ncodata Fun {{ ap(x: i64): i64 }}\ndef main({}): i64 {{\n{body}}}\n", params.join(", "))
}
