//! C01 — compiled x86-64 executable behaves like the source (CEK reference vs native process).

use super::chain::*;
use super::{Acc, Ctx};
use crate::gen_fun::EffectMode;
use crate::json::J;
use crate::native::{self, BuildErr, Workdir};
use crate::pipeline;
use crate::trace::Outcome;
use std::time::Duration;

pub fn judge(acc: &mut Acc, wd: &mut Workdir, src: &str, args: &[i64], reference: &Outcome, origin: &str, valgrind: bool) {
    let replay = |extra: &str| {
        J::obj()
            .with("kind", J::s("fun-native"))
            .with("src", J::s(src))
            .with("args", args_json(args))
            .with("expected_stdout", J::s(String::from_utf8_lossy(&reference.render()).to_string()))
            .with("expected_result", J::s(format!("{:?}", reference.end)))
            .with("origin", J::s(origin))
            .with("detail", J::s(extra))
    };
    let st = match stages(src) {
        Ok(s) => s,
        Err(e) => {
            if e.is_capacity() {
                acc.discard("capacity limit in a stage");
                return;
            }
            let sig = match &e {
                pipeline::StageErr::Parse(_) => "C01:rejected:parse".to_string(),
                pipeline::StageErr::Type(_) => "C01:rejected:type".to_string(),
                pipeline::StageErr::Panic { stage, .. } => format!("C01:panic:{stage}"),
            };
            acc.violation(sig, format!("no executable: {}", e.describe()), replay(&e.describe()));
            return;
        }
    };
    let asm = match pipeline::x86(st.linear.clone()) {
        Ok(a) => a,
        Err(e) => {
            if e.is_capacity() {
                acc.discard("capacity limit in code generation");
            } else {
                acc.violation("C01:panic:codegen", format!("no executable: {}", e.describe()), replay(&e.describe()));
            }
            return;
        }
    };
    let exe = match wd.build_x86(&asm.text, asm.nargs, None) {
        Ok(e) => e,
        Err(BuildErr::Assemble(m)) => {
            let first = m.lines().find(|l| l.contains("Error")).unwrap_or("").to_string();
            let cls = first.rsplit("Error:").next().unwrap_or("").trim().to_string();
            acc.violation(format!("C01:assemble:{cls}"), format!("assembler rejects the emitted file: {first}"), replay(&m));
            return;
        }
        Err(BuildErr::Infra(m)) => {
            acc.infra(format!("build: {m}"));
            return;
        }
    };
    let mut cmd = std::process::Command::new(&exe);
    for a in args {
        cmd.arg(a.to_string());
    }
    let res = native::run_exe(&mut cmd, Duration::from_secs(20));
    let r = match res {
        Ok(r) => r,
        Err(e) => {
            acc.infra(format!("run: {e}"));
            let _ = std::fs::remove_file(&exe);
            return;
        }
    };
    if r.timed_out {
        acc.discard("native run exceeded the 20 s watchdog (inconclusive)");
        let _ = std::fs::remove_file(&exe);
        return;
    }
    let want = reference.render();
    let code = (reference.end.clone().unwrap_or(0) & 0xff) as i32;
    acc.count("native_runs");
    acc.add("native_stdout_bytes_compared", want.len() as u64);
    if r.stdout != want || r.status != Some(code) {
        let b = blame(reference, &st, args);
        let what = format!(
            "native stdout/exit {:?}/{:?} (signal {:?}) differs from source semantics {:?}/{}; first disagreement: {}",
            String::from_utf8_lossy(&r.stdout).chars().take(80).collect::<String>(),
            r.status,
            r.signal,
            String::from_utf8_lossy(&want).chars().take(80).collect::<String>(),
            code,
            b
        );
        let stage = b.split(':').next().unwrap_or("").to_string();
        acc.violation(format!("C01:mismatch:{stage}"), what, replay(&b));
    } else if valgrind {
        // an exit code that the program itself does not use
        let vg_code = if code == 97 { 98 } else { 97 };
        let mut cmd = std::process::Command::new("valgrind");
        cmd.args(["-q", &format!("--error-exitcode={vg_code}"), "--"]).arg(&exe);
        for a in args {
            cmd.arg(a.to_string());
        }
        if let Ok(v) = native::run_exe(&mut cmd, Duration::from_secs(120)) {
            acc.count("valgrind_runs");
            if v.status == Some(vg_code) {
                let msg: String = String::from_utf8_lossy(&v.stderr).chars().take(400).collect();
                acc.violation("C01:valgrind", format!("valgrind memcheck reports an error in the native run: {msg}"), replay(&msg));
            }
        }
    }
    let _ = std::fs::remove_file(&exe);
}

pub fn run(ctx: &Ctx, acc: &mut Acc) {
    let mut wd = Workdir::new(&format!("c01-{}", ctx.shard));
    super::corpus::c01(ctx, acc, &mut wd);
    let max_cases: u64 = if ctx.quick() { 400 } else { 1_000_000 };
    let mut i = 0u64;
    while ctx.time_left() && i < max_cases {
        let seed = ctx.case_seed(i);
        i += 1;
        let case = gen_fun_case(seed, EffectMode::Sequenced, |_, _| {});
        let mut any = false;
        for (k, args) in case.args.iter().enumerate() {
            acc.evaluations += 1;
            let (reference, st) = cek_ref(&case, args);
            if !reference.defined() {
                acc.discard(&format!("reference undefined: {:?}", reference.end));
                continue;
            }
            acc.add("cek_steps", st.steps);
            acc.add("cek_thunk_forces", st.forces);
            acc.add("cek_gotos", st.gotos);
            acc.add("print_events_expected", reference.prints.len() as u64);
            let before = acc.violations.len();
            let vg = !ctx.quick() && (seed.wrapping_add(k as u64) % 20 == 0);
            judge(acc, &mut wd, &case.src, args, &reference, &format!("gen_fun seed={seed} {}", case.profile.describe()), vg);
            if acc.violations.len() == before && (!reference.prints.is_empty() || st.steps >= 20) {
                any = true;
            }
            if k == 0 && acc.samples.len() < 3 && !reference.prints.is_empty() {
                acc.sample(J::obj().with("src", J::s(case.src.clone())).with("args", args_json(args)).with("observed", reference.to_json()));
            }
        }
        if any {
            acc.nontrivial(case_hash(&case));
        }
        for (k, v) in &case.feats {
            acc.add(&format!("feature_{k}"), *v);
        }
        acc.count(&format!("naming_{:?}", case.profile.naming));
    }
    acc.add("programs", i);
}

pub fn replay(payload: &J, acc: &mut Acc) {
    let src = payload.get("src").and_then(|s| s.as_str()).unwrap_or("").to_string();
    let args = args_from_json(payload.get("args"));
    let mut wd = Workdir::new("c01-replay");
    // the expected behaviour is stored in the replay file (the APR is not)
    let stdout = payload.get("expected_stdout").and_then(|s| s.as_str()).unwrap_or("");
    let end = payload
        .get("expected_result")
        .and_then(|s| s.as_str())
        .and_then(|s| s.strip_prefix("Ok(").and_then(|x| x.strip_suffix(')')).and_then(|x| x.parse::<i64>().ok()));
    let corpus = payload.get("kind").and_then(|k| k.as_str()) == Some("corpus-native");
    let end = if corpus { end.or(Some(i64::MIN)) } else { end };
    let Some(end) = end else {
        acc.infra("replay: no expected result");
        return;
    };
    let reference = RawRef { stdout: stdout.as_bytes().to_vec(), end };
    acc.evaluations += 1;
    replay_raw(acc, &mut wd, &src, &args, &reference);
}

struct RawRef {
    stdout: Vec<u8>,
    end: i64,
}

fn replay_raw(acc: &mut Acc, wd: &mut Workdir, src: &str, args: &[i64], reference: &RawRef) {
    let st = match stages(src) {
        Ok(s) => s,
        Err(e) => {
            acc.violation("C01:replay", format!("no executable: {}", e.describe()), J::obj());
            return;
        }
    };
    let asm = match pipeline::x86(st.linear) {
        Ok(a) => a,
        Err(e) => {
            acc.violation("C01:replay", e.describe(), J::obj());
            return;
        }
    };
    match wd.build_x86(&asm.text, asm.nargs, None) {
        Ok(exe) => {
            let mut cmd = std::process::Command::new(&exe);
            for a in args {
                cmd.arg(a.to_string());
            }
            if let Ok(r) = native::run_exe(&mut cmd, Duration::from_secs(20)) {
                if r.stdout != reference.stdout || (reference.end != i64::MIN && r.status != Some((reference.end & 0xff) as i32)) {
                    acc.violation("C01:replay", format!("still differs: got {:?}/{:?}", String::from_utf8_lossy(&r.stdout), r.status), J::obj());
                }
            }
        }
        Err(e) => acc.violation("C01:replay", format!("{e:?}"), J::obj()),
    }
}
