//! Directed workloads of the backend monitors (C06-C10, C13) that random programs reach too rarely:
//! (a) the capacity boundary: the largest numbers of simultaneously live variables a backend
//!     accepts (the last spill slots), with a print in the middle;
//! (b) sharing: an object (data or closure) at every position of the environment is copied k
//!     times by one substitution and all copies are used, with an allocation between the uses.

use super::backend::{self, Isa, LinCase};
use super::chain::stages;
use super::{Acc, Ctx};
use crate::emu::EmuConfig;

/// `l` integers and one object are live when `o` is passed `k` times to a function; every copy is
/// used, a new object is allocated between the uses, the integers are used afterwards
pub fn sharing_program(l: usize, closure: bool, k: usize) -> String {
    sharing_program_kinds(l, closure, k, 0)
}

/// `kinds`: 0 = the leading variables are integers; 1 = every third one (positions 0, 3, 6, ..) is
/// an object; 2 = every second one (positions 1, 3, ..) is an object.  Objects are used after the
/// copies have been consumed, so a register lost while unpacking a copy is observed.
pub fn sharing_program_kinds(l: usize, closure: bool, k: usize, kinds: usize) -> String {
    let is_obj = |i: usize| match kinds {
        0 => false,
        1 => i % 3 == 0,
        _ => i % 2 == 1,
    };
    let mut body = String::new();
    for i in 0..l {
        if is_obj(i) {
            body.push_str(&format!("  let v{i}: Box = B(a0 + {}, {i});\n", 100 + i));
        } else {
            body.push_str(&format!("  let v{i}: i64 = a0 + {};\n", 100 + i));
        }
    }
    let (ty, mk) = if closure { ("Fun", "new { ap(x) => (x + a0) + 1 }") } else { ("Box", "B(a0, 7)") };
    let use_ = |o: &str, j: usize| if closure { format!("{o}.ap({j})") } else { format!("({o}.case {{ B(x, y) => (x + y) + {j} }})") };
    body.push_str(&format!("  let o: {ty} = {mk};\n"));
    // the integers are passed along, so that they (and not a continuation closure holding them)
    // sit in the environment in front of the object when it is copied
    let mut params: Vec<String> = (0..l).map(|i| if is_obj(i) { format!("p{i}: Box") } else { format!("p{i}: i64") }).collect();
    params.extend((0..k).map(|j| format!("c{j}: {ty}")));
    let mut args: Vec<String> = (0..l).map(|i| format!("v{i}")).collect();
    args.extend((0..k).map(|_| "o".to_string()));
    let mut callee = String::new();
    for j in 0..k {
        callee.push_str(&format!("  let r{j}: i64 = {};\n  let t{j}: Box = B(r{j}, {j});\n", use_(&format!("c{j}"), j)));
    }
    let mut sum = "0".to_string();
    for j in 0..k {
        sum = format!("(r{j} + (t{j}.case {{ B(x, y) => x + y }})) + ({sum})");
    }
    for i in 0..l {
        sum = if is_obj(i) { format!("(p{i}.case {{ B(x, y) => x + y }}) + ({sum})") } else { format!("p{i} + ({sum})") };
    }
    callee.push_str(&format!("  {sum}\n"));
    let tail = format!("use_all({})", args.join(", "));
    format!(
        "data Box {{ B(x: i64, y: i64) }}\ncodata Fun {{ ap(x: i64): i64 }}\ndef use_all({}): i64 {{\n{callee}}}\ndef main(a0: i64): i64 {{\n{body}  let r: i64 = {tail};\n  println_i64(r);\n  r % 200\n}}\n",
        params.join(", ")
    )
}

/// A wide object (n fields, objects at the positions `pattern` selects) or a closure capturing n
/// such values is used k times.  Every use but the last unpacks it while it is still shared, consumes
/// the children, and is followed by the allocation of a list longer than anything the use can have
/// released, so that a child whose count was not raised
/// while unpacking is released and its block re-used before the next use reads it.  No print: the
/// program also runs on RISC-V; the result carries every field of every use.
pub fn wide_shared_program(n: usize, closure: bool, k: usize, pattern: usize) -> String {
    let is_obj = |i: usize| match pattern {
        0 => true,
        1 => i % 2 == 0,
        2 => i % 2 == 1,
        3 => i == 0,
        _ => i + 1 == n,
    };
    let fields: Vec<String> = (0..n).map(|i| format!("f{i}: {}", if is_obj(i) { "Box" } else { "i64" })).collect();
    let values: Vec<String> = (0..n).map(|i| if is_obj(i) { format!("B(a0 + {})", 3 * i + 1) } else { format!("a0 + {}", 3 * i + 1) }).collect();
    let mut sum = "j".to_string();
    for i in (0..n).rev() {
        sum = if is_obj(i) { format!("(f{i}.case {{ B(x) => x * {} }}) + ({sum})", i + 2) } else { format!("(f{i} * {}) + ({sum})", i + 2) };
    }
    let mut main = String::new();
    let (decl, make, use_): (String, String, Box<dyn Fn(usize) -> String>) = if closure {
        for (i, v) in values.iter().enumerate() {
            main.push_str(&format!("  let f{i}: {} = {v};\n", if is_obj(i) { "Box" } else { "i64" }));
        }
        ("codata Fun { ap(j: i64): i64 }\n".to_string(), format!("new {{ ap(j) => {sum} }}"), Box::new(|j| format!("w.ap({j})")))
    } else {
        (
            format!("data Wide {{ W({}) }}\ndef take(w: Wide, j: i64): i64 {{ w.case {{ W({}) => {sum} }} }}\n", fields.join(", "), (0..n).map(|i| format!("f{i}")).collect::<Vec<_>>().join(", ")),
            format!("W({})", values.join(", ")),
            Box::new(|j| format!("take(w, {j})")),
        )
    };
    main.push_str(&format!("  let w: {} = {make};\n", if closure { "Fun" } else { "Wide" }));
    let mut total = "0".to_string();
    for j in 0..k {
        // more cells than the use can have released: every released block is written again
        main.push_str(&format!("  let r{j}: i64 = {};\n  let t{j}: i64 = sum(fill({}, {}, Nil), 0);\n", use_(j), 2 * n + 12, 100000 * (j + 1)));
        total = format!("(r{j} + t{j}) + ({total})");
    }
    format!(
        "data Box {{ B(x: i64) }}\ndata Lst {{ Nil, Cons(h: i64, t: Lst) }}\ndef fill(m: i64, v: i64, acc: Lst): Lst {{ if m == 0 {{ acc }} else {{ fill(m - 1, v + 1, Cons(v, acc)) }} }}\ndef sum(l: Lst, s: i64): i64 {{ l.case {{ Nil => s, Cons(h, t) => sum(t, s + h) }} }}\n{decl}def main(a0: i64): i64 {{\n{main}  {total}\n}}\n"
    )
}

pub fn run(ctx: &Ctx, acc: &mut Acc, cfg: &EmuConfig, share_of_budget: u32) {
    let prop = ctx.prop.as_str();
    let isas = backend::isas_for(prop);
    let deadline = ctx.budget / share_of_budget;
    let t0 = std::time::Instant::now();
    let mut idx = 0usize;
    // (b) sharing
    'sharing: for l in 0..=18usize {
        for closure in [false, true] {
            for k in 2..=4usize {
              for kinds in 0..3usize {
                idx += 1;
                if idx % ctx.nshards != ctx.shard {
                    continue;
                }
                if t0.elapsed() > deadline {
                    break 'sharing;
                }
                let src = sharing_program_kinds(l, closure, k, kinds);
                let Ok(st) = stages(&src) else {
                    acc.infra(format!("directed sharing program does not compile (l={l} closure={closure} k={k} kinds={kinds})"));
                    continue;
                };
                for isa in &isas {
                    if *isa == Isa::Rv {
                        continue; // the program prints
                    }
                    acc.evaluations += 1;
                    let c = LinCase { linear: &st.linear, args: &[5], origin: format!("directed sharing: {l} leading variables (kinds {kinds}), {} copied {k} times", if closure { "closure" } else { "object" }), src: Some(&src) };
                    if backend::judge_linear(prop, *isa, acc, &c, cfg) {
                        acc.count("directed_sharing_programs");
                        acc.nontrivial(crate::rng::hash_str(&src) ^ *isa as u64);
                    }
                }
              }
            }
        }
    }
    // (c) wide shared objects and closures whose children are consumed between the uses
    'wide: for n in 1..=9usize {
        for closure in [false, true] {
            for k in 2..=3usize {
                for pattern in 0..5usize {
                    idx += 1;
                    if idx % ctx.nshards != ctx.shard {
                        continue;
                    }
                    if t0.elapsed() > deadline * 2 {
                        break 'wide;
                    }
                    let src = wide_shared_program(n, closure, k, pattern);
                    let Ok(st) = stages(&src) else {
                        acc.infra(format!("directed wide-object program does not compile (n={n} closure={closure} k={k} pattern={pattern})"));
                        continue;
                    };
                    for isa in &isas {
                        acc.evaluations += 1;
                        let c = LinCase { linear: &st.linear, args: &[5], origin: format!("directed wide sharing: {} of {n} values (pattern {pattern}) used {k} times", if closure { "closure" } else { "object" }), src: Some(&src) };
                        if backend::judge_linear(prop, *isa, acc, &c, cfg) {
                            acc.count("directed_wide_sharing_programs");
                            acc.nontrivial(crate::rng::hash_str(&src) ^ *isa as u64);
                        }
                    }
                }
            }
        }
    }
    // (a) capacity boundary: find the first number of live variables the backend refuses
    for isa in &isas {
        if *isa == Isa::Rv {
            continue; // prints are not implemented on RISC-V; its limit (14) is inside the random workload
        }
        if ctx.shard != (*isa as usize) % ctx.nshards {
            continue;
        }
        let compiles = |l: usize| -> Option<(String, crate::pipeline::Stages)> {
            let src = super::directed13::program(l, 0, l / 2, 1);
            let st = stages(&src).ok()?;
            backend::codegen(*isa, st.linear.clone()).ok()?;
            Some((src, st))
        };
        // exponential then linear search for the boundary
        let mut lo = 8usize;
        if compiles(lo).is_none() {
            acc.infra(format!("{}: a program with 8 live variables does not compile", isa.name()));
            continue;
        }
        let mut hi = lo * 2;
        while hi < 2048 && compiles(hi).is_some() {
            lo = hi;
            hi *= 2;
        }
        while hi - lo > 1 {
            let mid = (lo + hi) / 2;
            if compiles(mid).is_some() { lo = mid } else { hi = mid }
        }
        acc.max(&format!("largest_live_variable_count_accepted_{}", isa.name()), lo as u64);
        for l in lo.saturating_sub(4)..=lo {
            if t0.elapsed() > deadline * 2 {
                break;
            }
            let Some((src, st)) = compiles(l) else { continue };
            for printed in [0usize, l - 1] {
                let src2 = super::directed13::program(l, 0, printed, 1);
                let st2 = if printed == l / 2 { None } else { stages(&src2).ok() };
                let (s, t) = match &st2 {
                    Some(t) => (&src2, t),
                    None => (&src, &st),
                };
                acc.evaluations += 1;
                let c = LinCase { linear: &t.linear, args: &[3], origin: format!("capacity boundary: {l} live variables (largest accepted {lo})"), src: Some(s) };
                if backend::judge_linear(prop, *isa, acc, &c, cfg) {
                    acc.count("capacity_boundary_programs");
                    acc.nontrivial(crate::rng::hash_str(s) ^ *isa as u64);
                }
            }
        }
    }
}
