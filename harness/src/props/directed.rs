//! Directed workloads of the backend monitors (C06-C10, C13) that random programs reach too rarely:
//! (a) the capacity boundary: the largest numbers of simultaneously live variables a backend
//!     accepts (the last spill slots), with a print in the middle;
//! (b) sharing: an object (data or closure) at every position of the environment is copied k
//!     times by one substitution and all copies are used, with an allocation between the uses.

use super::backend::{self, Isa, LinCase};
use super::chain::stages;
use super::{Acc, Ctx};
use crate::emu::EmuConfig;

/// `l` integers and one object are live when `o` is passed `k` times to a function; every copy is
/// used, a new object is allocated between the uses, the integers are used afterwards
pub fn sharing_program(l: usize, closure: bool, k: usize) -> String {
    sharing_program_kinds(l, closure, k, 0)
}

/// `kinds`: 0 = the leading variables are integers; 1 = every third one (positions 0, 3, 6, ..) is
/// an object; 2 = every second one (positions 1, 3, ..) is an object.  Objects are used after the
/// copies have been consumed, so a register lost while unpacking a copy is observed.
pub fn sharing_program_kinds(l: usize, closure: bool, k: usize, kinds: usize) -> String {
    let is_obj = |i: usize| match kinds {
        0 => false,
        1 => i % 3 == 0,
        _ => i % 2 == 1,
    };
    let mut body = String::new();
    for i in 0..l {
        if is_obj(i) {
            body.push_str(&format!("  let v{i}: Box = B(a0 + {}, {i});\n", 100 + i));
        } else {
            body.push_str(&format!("  let v{i}: i64 = a0 + {};\n", 100 + i));
        }
    }
    let (ty, mk) = if closure { ("Fun", "new { ap(x) => (x + a0) + 1 }") } else { ("Box", "B(a0, 7)") };
    let use_ = |o: &str, j: usize| if closure { format!("{o}.ap({j})") } else { format!("({o}.case {{ B(x, y) => (x + y) + {j} }})") };
    body.push_str(&format!("  let o: {ty} = {mk};\n"));
    // the integers are passed along, so that they (and not a continuation closure holding them)
    // sit in the environment in front of the object when it is copied
    let mut params: Vec<String> = (0..l).map(|i| if is_obj(i) { format!("p{i}: Box") } else { format!("p{i}: i64") }).collect();
    params.extend((0..k).map(|j| format!("c{j}: {ty}")));
    let mut args: Vec<String> = (0..l).map(|i| format!("v{i}")).collect();
    args.extend((0..k).map(|_| "o".to_string()));
    let mut callee = String::new();
    for j in 0..k {
        callee.push_str(&format!("  let r{j}: i64 = {};\n  let t{j}: Box = B(r{j}, {j});\n", use_(&format!("c{j}"), j)));
    }
    let mut sum = "0".to_string();
    for j in 0..k {
        sum = format!("(r{j} + (t{j}.case {{ B(x, y) => x + y }})) + ({sum})");
    }
    for i in 0..l {
        sum = if is_obj(i) { format!("(p{i}.case {{ B(x, y) => x + y }}) + ({sum})") } else { format!("p{i} + ({sum})") };
    }
    callee.push_str(&format!("  {sum}\n"));
    let tail = format!("use_all({})", args.join(", "));
    format!(
        "data Box {{ B(x: i64, y: i64) }}\ncodata Fun {{ ap(x: i64): i64 }}\ndef use_all({}): i64 {{\n{callee}}}\ndef main(a0: i64): i64 {{\n{body}  let r: i64 = {tail};\n  println_i64(r);\n  r % 200\n}}\n",
        params.join(", ")
    )
}

pub fn run(ctx: &Ctx, acc: &mut Acc, cfg: &EmuConfig, share_of_budget: u32) {
    let prop = ctx.prop.as_str();
    let isas = backend::isas_for(prop);
    let deadline = ctx.budget / share_of_budget;
    let t0 = std::time::Instant::now();
    let mut idx = 0usize;
    // (b) sharing
    'sharing: for l in 0..=18usize {
        for closure in [false, true] {
            for k in 2..=4usize {
              for kinds in 0..3usize {
                idx += 1;
                if idx % ctx.nshards != ctx.shard {
                    continue;
                }
                if t0.elapsed() > deadline {
                    break 'sharing;
                }
                let src = sharing_program_kinds(l, closure, k, kinds);
                let Ok(st) = stages(&src) else {
                    acc.infra(format!("directed sharing program does not compile (l={l} closure={closure} k={k} kinds={kinds})"));
                    continue;
                };
                for isa in &isas {
                    if *isa == Isa::Rv {
                        continue; // the program prints
                    }
                    acc.evaluations += 1;
                    let c = LinCase { linear: &st.linear, args: &[5], origin: format!("directed sharing: {l} leading variables (kinds {kinds}), {} copied {k} times", if closure { "closure" } else { "object" }), src: Some(&src) };
                    if backend::judge_linear(prop, *isa, acc, &c, cfg) {
                        acc.count("directed_sharing_programs");
                        acc.nontrivial(crate::rng::hash_str(&src) ^ *isa as u64);
                    }
                }
              }
            }
        }
    }
    // (a) capacity boundary: find the first number of live variables the backend refuses
    for isa in &isas {
        if *isa == Isa::Rv {
            continue; // prints are not implemented on RISC-V; its limit (14) is inside the random workload
        }
        if ctx.shard != (*isa as usize) % ctx.nshards {
            continue;
        }
        let compiles = |l: usize| -> Option<(String, crate::pipeline::Stages)> {
            let src = super::directed13::program(l, 0, l / 2, 1);
            let st = stages(&src).ok()?;
            backend::codegen(*isa, st.linear.clone()).ok()?;
            Some((src, st))
        };
        // exponential then linear search for the boundary
        let mut lo = 8usize;
        if compiles(lo).is_none() {
            acc.infra(format!("{}: a program with 8 live variables does not compile", isa.name()));
            continue;
        }
        let mut hi = lo * 2;
        while hi < 2048 && compiles(hi).is_some() {
            lo = hi;
            hi *= 2;
        }
        while hi - lo > 1 {
            let mid = (lo + hi) / 2;
            if compiles(mid).is_some() { lo = mid } else { hi = mid }
        }
        acc.max(&format!("largest_live_variable_count_accepted_{}", isa.name()), lo as u64);
        for l in lo.saturating_sub(4)..=lo {
            if t0.elapsed() > deadline * 2 {
                break;
            }
            let Some((src, st)) = compiles(l) else { continue };
            for printed in [0usize, l - 1] {
                let src2 = super::directed13::program(l, 0, printed, 1);
                let st2 = if printed == l / 2 { None } else { stages(&src2).ok() };
                let (s, t) = match &st2 {
                    Some(t) => (&src2, t),
                    None => (&src, &st),
                };
                acc.evaluations += 1;
                let c = LinCase { linear: &t.linear, args: &[3], origin: format!("capacity boundary: {l} live variables (largest accepted {lo})"), src: Some(s) };
                if backend::judge_linear(prop, *isa, acc, &c, cfg) {
                    acc.count("capacity_boundary_programs");
                    acc.nontrivial(crate::rng::hash_str(s) ^ *isa as u64);
                }
            }
        }
    }
}
