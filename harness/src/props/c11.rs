//! C11 — explicit substitutions are compiled as simultaneous assignments: the code emitted by the
//! real `Substitute::code_statement::<Backend>` for ONE statement is emulated from a state in which
//! every variable holds a unique sentinel, and the final state is compared with the specification.

use super::{Acc, Ctx};
use crate::emu::{self, EmuConfig, Snapshot2, BLOCK, HEAP_BASE};
use crate::json::J;
use crate::pipeline;
use crate::rng::Rng;
use axcut::syntax::statements::{Call, Substitute};
use axcut::syntax::{Chirality, ContextBinding, Identifier, Statement, Ty, TypingContext};
use axcut2backend::code::Instructions;
use axcut2backend::coder::AssemblyProg;
use axcut2backend::config::{Config, TemporaryNumber};
use axcut2backend::memory::Memory;
use axcut2backend::parallel_moves::ParallelMoves;
use axcut2backend::statements::CodeStatement;
use axcut2backend::utils::Utils;
use printer::Print;
use std::hash::Hash;
use std::rc::Rc;

#[derive(Clone, Copy, Debug, PartialEq, Eq)]
pub enum Kind {
    Ext,
    Block,
    NoBlock,
}

#[derive(Clone, Debug)]
pub struct Config11 {
    pub isa: usize, // 0 x86, 1 a64, 2 rv
    pub window: usize,
    pub kinds: Vec<Kind>,
    /// new variable j takes the value of old variable map[j]
    pub map: Vec<usize>,
    /// old variable i shares its block with old variable share[i] (only for Block kinds)
    pub share: Vec<Option<usize>>,
}

pub const ISA_NAMES: [&str; 3] = ["x86_64", "aarch64", "rv64"];

fn obj_ty() -> Ty {
    Ty::Decl(Identifier { name: "T".into(), id: 0 })
}

fn binding(name: &str, id: usize, kind: Kind) -> ContextBinding {
    match kind {
        Kind::Ext => ContextBinding { var: Identifier { name: name.into(), id }, chi: Chirality::Ext, ty: Ty::I64 },
        _ => ContextBinding { var: Identifier { name: name.into(), id }, chi: Chirality::Prd, ty: obj_ty() },
    }
}

pub struct Plan {
    pub old_ctx: TypingContext,
    pub rearrange: Vec<(ContextBinding, Identifier)>,
    /// per position: (fst, snd) initial values
    pub init: Vec<(u64, u64)>,
    pub positions: usize,
    pub heap: Vec<u64>,
    pub free_reg: u64,
    pub block_of: Vec<Option<u64>>,
    pub count_of: Vec<u64>,
}

pub fn plan(c: &Config11) -> Plan {
    let n = c.kinds.len();
    let w = c.window;
    let mut old = Vec::new();
    for j in 0..w {
        old.push(binding("pad", 100 + j, Kind::Ext));
    }
    for (i, k) in c.kinds.iter().enumerate() {
        old.push(binding("o", 200 + i, *k));
    }
    let mut rearrange = Vec::new();
    for j in 0..w {
        rearrange.push((binding("pad", 100 + j, Kind::Ext), Identifier { name: "pad".into(), id: 100 + j }));
    }
    for (j, src) in c.map.iter().enumerate() {
        rearrange.push((binding("n", 300 + j, c.kinds[*src]), Identifier { name: "o".into(), id: 200 + src }));
    }
    // heap: block 0 = reuse-list terminal, then one block per distinct object, then the frontier
    let mut block_of: Vec<Option<u64>> = vec![None; n];
    let mut next = 1u64;
    for i in 0..n {
        if c.kinds[i] == Kind::Block {
            match c.share[i] {
                Some(s) if s < i && block_of[s].is_some() => block_of[i] = block_of[s],
                _ => {
                    block_of[i] = Some(HEAP_BASE + next * BLOCK);
                    next += 1;
                }
            }
        }
    }
    let nblocks = next;
    let mut heap = vec![0u64; ((nblocks + 1) * BLOCK / 8) as usize];
    let mut count_of = vec![0u64; n];
    for i in 0..n {
        if let Some(a) = block_of[i] {
            // references from the old variables themselves, plus (for odd blocks) two references from elsewhere
            let refs_from_vars = (0..n).filter(|j| block_of[*j] == Some(a)).count() as u64;
            let extra = if ((a - HEAP_BASE) / BLOCK) % 2 == 1 { 0 } else { 2 };
            let cnt = refs_from_vars - 1 + extra;
            count_of[i] = cnt;
            let wi = ((a - HEAP_BASE) / 8) as usize;
            heap[wi] = cnt;
            for f in 0..3 {
                heap[wi + 2 + 2 * f] = 0;
                heap[wi + 3 + 2 * f] = 0x7000 + (i as u64) * 16 + f as u64;
            }
        }
    }
    let positions = w + n.max(c.map.len()) + 2;
    let mut init = Vec::new();
    for p in 0..positions {
        init.push((0xAAAA_0000 + p as u64, 0xBBBB_0000 + p as u64));
    }
    for j in 0..w {
        init[j].1 = 0x500 + j as u64;
    }
    for i in 0..n {
        let p = w + i;
        match c.kinds[i] {
            Kind::Ext => init[p].1 = 0x1000 + i as u64,
            Kind::Block => init[p] = (block_of[i].unwrap(), 0x2000 + i as u64),
            Kind::NoBlock => init[p] = (0, 0x3000 + i as u64),
        }
    }
    Plan { old_ctx: TypingContext { bindings: old }, rearrange, init, positions, heap, free_reg: HEAP_BASE + nblocks * BLOCK, block_of, count_of }
}

fn dummy(n: usize) -> TypingContext {
    emu::x86::dummy_context(n)
}

/// instruction list: prelude (load sentinels), the real code of the substitution, stop label
fn fragment<B, Code, Temporary: Ord + Hash + Copy, Immediate>(p: &Plan, stmt: Option<Statement>) -> Vec<Code>
where
    B: Config<Temporary, Immediate> + Instructions<Code, Temporary, Immediate> + Memory<Code, Temporary> + ParallelMoves<Code, Temporary> + Utils<Temporary>,
{
    let mut ins: Vec<Code> = Vec::new();
    ins.push(B::label("verif_prelude_".into()));
    B::load_immediate(B::heap(), B::i64_to_immediate(HEAP_BASE as i64), &mut ins);
    B::load_immediate(B::free(), B::i64_to_immediate(p.free_reg as i64), &mut ins);
    for (pos, (f, s)) in p.init.iter().enumerate() {
        let ctx = dummy(pos);
        B::load_immediate(B::fresh_temporary(TemporaryNumber::Fst, &ctx), B::i64_to_immediate(*f as i64), &mut ins);
        B::load_immediate(B::fresh_temporary(TemporaryNumber::Snd, &ctx), B::i64_to_immediate(*s as i64), &mut ins);
    }
    let stmt = stmt.unwrap_or_else(|| {
        Statement::Substitute(Substitute { rearrange: p.rearrange.clone(), next: Rc::new(stop_statement()) })
    });
    stmt.code_statement::<B, _, _, _>(&[], p.old_ctx.clone(), &mut ins);
    ins.push(B::label("verif_stop_".into()));
    B::jump_label("cleanup".into(), &mut ins);
    ins
}

pub fn stop_statement() -> Statement {
    Statement::Call(Call { label: Identifier { name: "verif_stop".into(), id: 0 }, args: TypingContext { bindings: vec![] } })
}

pub fn text_for(isa: usize, p: &Plan) -> Result<String, pipeline::StageErr> {
    text_for_stmt(isa, p, None)
}

/// prelude + code of one arbitrary statement (which must end in `stop_statement()` on every path)
pub fn text_for_stmt(isa: usize, p: &Plan, stmt: Option<Statement>) -> Result<String, pipeline::StageErr> {
    pipeline::guarded("statement-codegen", || match isa {
        0 => {
            let ins = fragment::<axcut2x86_64::Backend, _, _, _>(p, stmt);
            axcut2x86_64::into_routine::into_x86_64_routine(AssemblyProg { instructions: ins, number_of_arguments: 0 }).print_to_string(None)
        }
        1 => {
            let ins = fragment::<axcut2aarch64::Backend, _, _, _>(p, stmt);
            axcut2aarch64::into_routine::into_aarch64_routine(AssemblyProg { instructions: ins, number_of_arguments: 0 }).print_to_string(None)
        }
        _ => {
            let ins = fragment::<axcut2rv64::Backend, _, _, _>(p, stmt);
            axcut2rv64::into_routine::into_rv64_routine(AssemblyProg { instructions: ins, number_of_arguments: 0 })
        }
    })
}

/// value of a temporary in a snapshot
pub fn read_temp(isa: usize, snap: &Snapshot2, pos: usize, number: TemporaryNumber) -> Option<(u64, bool)> {
    let ctx = dummy(pos);
    match isa {
        0 => {
            use axcut2x86_64::config::{Temporary, stack_offset};
            match <axcut2x86_64::Backend as Utils<Temporary>>::fresh_temporary(number, &ctx) {
                Temporary::Register(r) => snap.regs.get(emu::x86::backend_reg(r.0) as usize).copied(),
                Temporary::Spill(s) => snap.stack_at(snap.sp.wrapping_add(stack_offset(s).val as u64)),
            }
        }
        1 => {
            use axcut2aarch64::config::{Temporary, stack_offset};
            match <axcut2aarch64::Backend as Utils<Temporary>>::fresh_temporary(number, &ctx) {
                Temporary::Register(r) => snap.regs.get(emu::a64::backend_reg(r) as usize).copied(),
                Temporary::Spill(s) => snap.stack_at(snap.sp.wrapping_add(stack_offset(s).val as u64)),
            }
        }
        _ => {
            let r = <axcut2rv64::Backend as Utils<axcut2rv64::config::Register>>::fresh_temporary(number, &ctx);
            snap.regs.get(emu::rv::hw(r) as usize).copied()
        }
    }
}

pub fn reg_of(isa: usize, snap: &Snapshot2, which_heap: bool) -> (u64, bool) {
    match isa {
        0 => {
            use axcut2x86_64::config::Temporary;
            let t = if which_heap { <axcut2x86_64::Backend as Config<Temporary, axcut2x86_64::config::Immediate>>::heap() } else { <axcut2x86_64::Backend as Config<Temporary, axcut2x86_64::config::Immediate>>::free() };
            match t {
                Temporary::Register(r) => snap.regs[emu::x86::backend_reg(r.0) as usize],
                _ => (0, false),
            }
        }
        1 => {
            use axcut2aarch64::config::Temporary;
            let t = if which_heap { <axcut2aarch64::Backend as Config<Temporary, axcut2aarch64::config::Immediate>>::heap() } else { <axcut2aarch64::Backend as Config<Temporary, axcut2aarch64::config::Immediate>>::free() };
            match t {
                Temporary::Register(r) => snap.regs[emu::a64::backend_reg(r) as usize],
                _ => (0, false),
            }
        }
        _ => {
            let r = if which_heap { <axcut2rv64::Backend as Config<axcut2rv64::config::Register, axcut2rv64::config::Immediate>>::heap() } else { <axcut2rv64::Backend as Config<axcut2rv64::config::Register, axcut2rv64::config::Immediate>>::free() };
            snap.regs[emu::rv::hw(r) as usize]
        }
    }
}

pub fn run_text(isa: usize, text: &str, heap: &[u64]) -> Result<emu::EmuResult, String> {
    let cfg = EmuConfig { heap_bytes: 1 << 16, max_instructions: 200_000, heap_check_every: 0, footprint_check: false, enforce_shape: true, stop_label: Some("verif_stop_".into()), init_heap: Some(heap.to_vec()) };
    match isa {
        0 => Ok(emu::x86::run(&emu::x86::parse(text)?, &[], &cfg)),
        1 => Ok(emu::a64::run(&emu::a64::parse(text)?, &[], &cfg)),
        _ => Ok(emu::rv::run(&emu::rv::parse(text)?, &[], &cfg)),
    }
}

thread_local! {
    static BASE_SP: std::cell::RefCell<[Option<u64>; 3]> = const { std::cell::RefCell::new([None; 3]) };
}

pub fn baseline_sp(isa: usize) -> Option<u64> {
    if let Some(v) = BASE_SP.with(|b| b.borrow()[isa]) {
        return Some(v);
    }
    let c = Config11 { isa, window: 0, kinds: vec![], map: vec![], share: vec![] };
    let p = plan(&c);
    let text = text_for(isa, &p).ok()?;
    let r = run_text(isa, &text, &p.heap).ok()?;
    let sp = r.snapshot?.sp;
    BASE_SP.with(|b| b.borrow_mut()[isa] = Some(sp));
    Some(sp)
}

/// Some(description) = violation
pub fn judge(c: &Config11, stats: &mut (u64, u64, u64)) -> Result<Option<String>, String> {
    let p = plan(c);
    let isa = c.isa;
    let text = match text_for(isa, &p) {
        Ok(t) => t,
        Err(e) => {
            if e.is_capacity() {
                return Err("capacity".into());
            }
            return Ok(Some(format!("code generation for the substitution panics: {}", e.describe())));
        }
    };
    let r = run_text(isa, &text, &p.heap)?;
    stats.0 += r.stats.instructions;
    if let Some(v) = &r.violation {
        return Ok(Some(format!("sanitizer: {:?} {}", v.kind, v.msg)));
    }
    let Some(snap) = r.snapshot else {
        return Ok(Some(format!("the code never reaches the next statement: {:?}", r.outcome.end)));
    };
    let n = c.kinds.len();
    let w = c.window;
    // new variables
    for j in 0..w {
        let (v, d) = read_temp(isa, &snap, j, TemporaryNumber::Snd).ok_or("temporary not readable")?;
        if !d || v != p.init[j].1 {
            return Ok(Some(format!("identity-mapped variable at position {j} changed: {v:#x} (defined {d})")));
        }
    }
    for (j, src) in c.map.iter().enumerate() {
        let pos = w + j;
        let want = p.init[w + src];
        let (s, ds) = read_temp(isa, &snap, pos, TemporaryNumber::Snd).ok_or("temporary not readable")?;
        if !ds || s != want.1 {
            return Ok(Some(format!("new variable {j} (position {pos}) should hold the second temporary of old variable {src} = {:#x}, holds {s:#x} (defined {ds})", want.1)));
        }
        if c.kinds[*src] != Kind::Ext {
            let (f, df) = read_temp(isa, &snap, pos, TemporaryNumber::Fst).ok_or("temporary not readable")?;
            if !df || f != want.0 {
                return Ok(Some(format!("new variable {j} (position {pos}) should hold the block pointer of old variable {src} = {:#x}, holds {f:#x} (defined {df})", want.0)));
            }
        }
    }
    // registers
    let (h, hd) = reg_of(isa, &snap, true);
    if !hd || h != HEAP_BASE {
        return Ok(Some(format!("heap register changed to {h:#x}")));
    }
    if isa != 2 {
        if let Some(sp0) = baseline_sp(isa) {
            if snap.sp != sp0 {
                return Ok(Some(format!("stack pointer changed: {:#x} vs {:#x}", snap.sp, sp0)));
            }
        }
    }
    // reference counts and released blocks
    let mut blocks: Vec<u64> = p.block_of.iter().flatten().copied().collect();
    blocks.sort();
    blocks.dedup();
    let mut expected_released = Vec::new();
    let mut expected_count = std::collections::HashMap::new();
    for b in &blocks {
        let owners: Vec<usize> = (0..n).filter(|i| p.block_of[*i] == Some(*b)).collect();
        let cnt0 = p.count_of[owners[0]] as i64;
        let copies: i64 = owners.iter().map(|i| c.map.iter().filter(|s| **s == *i).count() as i64).sum();
        // references after = count0 + 1 - owners + copies
        let refs_after = cnt0 + 1 - owners.len() as i64 + copies;
        if refs_after <= 0 {
            expected_released.push(*b);
        } else {
            expected_count.insert(*b, (refs_after - 1) as u64);
        }
        if copies as usize != owners.len() {
            stats.1 += 1;
        }
    }
    // walk the deferred list from the free register
    let (mut f, fd) = reg_of(isa, &snap, false);
    if !fd {
        return Ok(Some("free register undefined".into()));
    }
    let word = |a: u64| -> u64 { snap.heap_words.get(((a - HEAP_BASE) / 8) as usize).copied().unwrap_or(u64::MAX) };
    let mut released = Vec::new();
    let mut guard = 0;
    while f != p.free_reg {
        if f < HEAP_BASE || f >= p.free_reg || (f - HEAP_BASE) % BLOCK != 0 || guard > 64 {
            return Ok(Some(format!("deferred free list is broken at {f:#x}")));
        }
        released.push(f);
        f = word(f);
        guard += 1;
    }
    let mut r1 = released.clone();
    r1.sort();
    let mut e1 = expected_released.clone();
    e1.sort();
    if r1 != e1 {
        return Ok(Some(format!("released blocks {r1:x?}, expected exactly {e1:x?} (each once)")));
    }
    stats.2 += released.len() as u64;
    for (b, want) in &expected_count {
        let got = word(*b);
        if got != *want {
            return Ok(Some(format!("block {b:#x}: count {got} after the substitution, expected {want}")));
        }
    }
    // nothing else in the heap changed (fields of all blocks, reuse-list terminal)
    for (i, wv) in p.heap.iter().enumerate() {
        let a = HEAP_BASE + 8 * i as u64;
        let is_header = (a - HEAP_BASE) % BLOCK == 0 && blocks.contains(&a);
        if !is_header && snap.heap_words[i] != *wv {
            return Ok(Some(format!("heap word at {a:#x} changed from {wv:#x} to {:#x}", snap.heap_words[i])));
        }
    }
    Ok(None)
}

fn describe(c: &Config11) -> J {
    J::obj()
        .with("kind", J::s("substitution"))
        .with("isa", J::s(ISA_NAMES[c.isa]))
        .with("window", J::i(c.window as i64))
        .with("kinds", J::Arr(c.kinds.iter().map(|k| J::s(format!("{k:?}"))).collect()))
        .with("map_new_to_old", J::Arr(c.map.iter().map(|x| J::i(*x as i64)).collect()))
        .with("share", J::Arr(c.share.iter().map(|x| x.map(|v| J::i(v as i64)).unwrap_or(J::Null)).collect()))
}

fn windows(isa: usize, quick: bool) -> Vec<usize> {
    match (isa, quick) {
        (0, true) => vec![0, 4, 7],
        (0, false) => (0..=8).collect(),
        (1, true) => vec![0, 10, 13],
        (1, false) => (8..=15).chain([0]).collect(),
        (_, true) => vec![0, 5, 9],
        (_, false) => (0..=9).collect(),
    }
}

fn move_features(c: &Config11) -> &'static str {
    // cycle / chain / fan-out classification of the move graph
    let m = c.map.len();
    let mut fan = false;
    for i in 0..c.kinds.len() {
        if c.map.iter().filter(|s| **s == i).count() > 1 {
            fan = true;
        }
    }
    let mut cycle = false;
    for j in 0..m {
        // follow j -> map[j] while it is a position that is also a target
        let mut cur = j;
        let mut steps = 0;
        while steps <= m {
            let src = c.map[cur];
            if src == cur {
                break;
            }
            if src >= m {
                break;
            }
            cur = src;
            steps += 1;
            if cur == j {
                cycle = true;
                break;
            }
        }
    }
    match (cycle, fan) {
        (true, true) => "cycle+fanout",
        (true, false) => "cycle",
        (false, true) => "fanout",
        _ => "chain/identity",
    }
}

pub fn run(ctx: &Ctx, acc: &mut Acc) {
    let quick = ctx.quick();
    let nmax = if quick { 4 } else { 5 };
    let mut idx: u64 = 0;
    let mut stats = (0u64, 0u64, 0u64);
    let mut complete = true;
    let kinds_all = [Kind::Ext, Kind::Block, Kind::NoBlock];
    'outer: for isa in 0..3usize {
        let ws = windows(isa, quick);
        for n in 0..=nmax {
            let nk = 3usize.pow(n as u32);
            for kcode in 0..nk {
                let mut kinds = Vec::new();
                let mut x = kcode;
                for _ in 0..n {
                    kinds.push(kinds_all[x % 3]);
                    x /= 3;
                }
                for m in 0..=nmax {
                    if n == 0 && m > 0 {
                        continue;
                    }
                    let nm = (n as u64).pow(m as u32);
                    for mcode in 0..nm {
                        for &w in &ws {
                            idx += 1;
                            if idx % ctx.nshards as u64 != ctx.shard as u64 {
                                continue;
                            }
                            if !ctx.time_left() {
                                complete = false;
                                break 'outer;
                            }
                            let mut map = Vec::new();
                            let mut y = mcode;
                            for _ in 0..m {
                                map.push((y % n.max(1) as u64) as usize);
                                y /= n.max(1) as u64;
                            }
                            let c = Config11 { isa, window: w, kinds: kinds.clone(), map, share: vec![None; n] };
                            one(acc, &c, &mut stats);
                        }
                    }
                }
            }
        }
    }
    // one size further with uniform kinds (all integers / all blocks / all block-less objects) at
    // the same window offsets: move graphs of nmax+1 variables (a cycle through the register/spill
    // boundary with a fan-out and a chain hanging off it needs five) -- seed C11-r14
    let n = nmax + 1;
    'uniform: for isa in 0..3usize {
        let ws = windows(isa, quick);
        for kind in kinds_all {
            for m in 0..=n {
                let nm = (n as u64).pow(m as u32);
                for mcode in 0..nm {
                    for &w in &ws {
                        idx += 1;
                        if idx % ctx.nshards as u64 != ctx.shard as u64 {
                            continue;
                        }
                        if !ctx.time_left() {
                            complete = false;
                            break 'uniform;
                        }
                        let mut map = Vec::new();
                        let mut y = mcode;
                        for _ in 0..m {
                            map.push((y % n as u64) as usize);
                            y /= n as u64;
                        }
                        let c = Config11 { isa, window: w, kinds: vec![kind; n], map, share: vec![None; n] };
                        acc.count("uniform_kind_maps_one_size_further");
                        one(acc, &c, &mut stats);
                    }
                }
            }
        }
    }
    acc.exhaustive = Some(complete);
    acc.notes.push(format!("enumerated all maps new(m<={nmax}) -> old(n<={nmax}) x 3^n kind assignments x window offsets x 3 backends, and all maps with m,n<={} of uniform kind at the same window offsets{}", nmax + 1, if complete { "" } else { " (time budget ended the enumeration early)" }));
    // random larger maps with shared blocks
    let mut rng = Rng::new(ctx.case_seed(7));
    let extra = if quick { 300 } else { 20_000 };
    let mut k = 0;
    while ctx.time_left() && k < extra {
        k += 1;
        let isa = rng.below(3);
        let cap = if isa == 2 { 11 } else { 20 };
        let n = 1 + rng.below(cap);
        let m = rng.below(cap + 1);
        let w = if isa == 2 { rng.below(13usize.saturating_sub(n.max(m)).max(1)) } else { rng.below(10) };
        let kinds: Vec<Kind> = (0..n).map(|_| kinds_all[rng.below(3)]).collect();
        let map: Vec<usize> = (0..m).map(|_| rng.below(n)).collect();
        let mut share = vec![None; n];
        for i in 1..n {
            if kinds[i] == Kind::Block && rng.chance(1, 3) {
                let cands: Vec<usize> = (0..i).filter(|j| kinds[*j] == Kind::Block).collect();
                if !cands.is_empty() {
                    share[i] = Some(*rng.pick(&cands));
                }
            }
        }
        let c = Config11 { isa, window: w, kinds, map, share };
        acc.count("random_larger_maps");
        one(acc, &c, &mut stats);
    }
    acc.add("emulated_instructions", stats.0);
    acc.add("blocks_with_count_change", stats.1);
    acc.add("blocks_released", stats.2);
    acc.sample(describe(&Config11 { isa: 0, window: 4, kinds: vec![Kind::Block, Kind::Ext, Kind::NoBlock], map: vec![2, 0, 0], share: vec![None; 3] }));
}

fn one(acc: &mut Acc, c: &Config11, stats: &mut (u64, u64, u64)) {
    acc.evaluations += 1;
    match judge(c, stats) {
        Ok(None) => {
            acc.distinct_extra += 1;
            acc.count(&format!("{}_{}", ISA_NAMES[c.isa], move_features(c)));
        }
        Ok(Some(msg)) => {
            let cls = msg.split(|ch: char| ch == ':' || ch == '(').next().unwrap_or("").trim().chars().take(40).collect::<String>();
            acc.violation(format!("C11:{}:{cls}", ISA_NAMES[c.isa]), format!("{} window {} kinds {:?} map {:?}: {msg}", ISA_NAMES[c.isa], c.window, c.kinds, c.map), describe(c));
        }
        Err(e) if e == "capacity" => acc.discard("capacity limit"),
        Err(e) => acc.infra(format!("C11: {e}")),
    }
}

pub fn replay(payload: &J, acc: &mut Acc) {
    let isa = payload.get("isa").and_then(|s| s.as_str()).and_then(|s| ISA_NAMES.iter().position(|x| *x == s)).unwrap_or(0);
    let window = payload.get("window").and_then(|x| x.as_i64()).unwrap_or(0) as usize;
    let kinds: Vec<Kind> = payload
        .get("kinds")
        .and_then(|a| a.as_arr())
        .map(|a| a.iter().map(|k| match k.as_str() { Some("Ext") => Kind::Ext, Some("Block") => Kind::Block, _ => Kind::NoBlock }).collect())
        .unwrap_or_default();
    let map: Vec<usize> = payload.get("map_new_to_old").and_then(|a| a.as_arr()).map(|a| a.iter().filter_map(|x| x.as_i64()).map(|x| x as usize).collect()).unwrap_or_default();
    let share: Vec<Option<usize>> = payload.get("share").and_then(|a| a.as_arr()).map(|a| a.iter().map(|x| x.as_i64().map(|v| v as usize)).collect()).unwrap_or_else(|| vec![None; kinds.len()]);
    let c = Config11 { isa, window, kinds, map, share };
    let mut stats = (0, 0, 0);
    one(acc, &c, &mut stats);
}
