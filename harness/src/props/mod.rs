//! Worker framework: one module per property; each worker process handles one shard and prints
//! one JSON report on stdout.

pub mod chain;
pub mod corpus;
pub mod c01;
pub mod backend;
pub mod middle;
pub mod c11;
pub mod matrix;
pub mod loops;
pub mod directed13;
pub mod directed;
pub mod c14;
pub mod c15;
pub mod c16;
pub mod c17;
pub mod c18;
pub mod c19;
pub mod c19gen;
pub mod c20;

use crate::json::J;
use std::collections::{BTreeMap, HashSet};
use std::time::{Duration, Instant};

#[derive(Clone, Copy, PartialEq, Eq, Debug)]
pub enum Tier {
    Quick,
    Thorough,
}

pub struct Ctx {
    pub prop: String,
    pub tier: Tier,
    pub seed: u64,
    pub shard: usize,
    pub nshards: usize,
    pub budget: Duration,
    pub start: Instant,
}

impl Ctx {
    pub fn time_left(&self) -> bool {
        self.start.elapsed() < self.budget
    }
    pub fn case_seed(&self, index: u64) -> u64 {
        let a = crate::rng::mix(self.seed, crate::rng::hash_str(&self.prop));
        crate::rng::mix(a, (self.shard as u64) << 40 | index)
    }
    pub fn quick(&self) -> bool {
        self.tier == Tier::Quick
    }
}

#[derive(Clone, Debug)]
pub struct Violation {
    /// stable signature used to match known findings
    pub sig: String,
    pub what: String,
    pub replay: J,
}

#[derive(Default)]
pub struct Acc {
    pub evaluations: u64,
    pub distinct: HashSet<u64>,
    pub distinct_extra: u64,
    pub counters: BTreeMap<String, u64>,
    pub discards: BTreeMap<String, u64>,
    pub samples: Vec<J>,
    pub violations: Vec<Violation>,
    pub infra_errors: Vec<String>,
    pub exhaustive: Option<bool>,
    pub notes: Vec<String>,
}

impl Acc {
    pub fn count(&mut self, k: &str) {
        *self.counters.entry(k.to_string()).or_insert(0) += 1;
    }
    pub fn add(&mut self, k: &str, n: u64) {
        *self.counters.entry(k.to_string()).or_insert(0) += n;
    }
    pub fn max(&mut self, k: &str, n: u64) {
        let e = self.counters.entry(k.to_string()).or_insert(0);
        *e = (*e).max(n);
    }
    pub fn discard(&mut self, k: &str) {
        *self.discards.entry(k.to_string()).or_insert(0) += 1;
    }
    pub fn nontrivial(&mut self, h: u64) {
        self.distinct.insert(h);
    }
    pub fn sample(&mut self, j: J) {
        if self.samples.len() < 4 {
            self.samples.push(j);
        }
    }
    pub fn violation(&mut self, sig: impl Into<String>, what: impl Into<String>, replay: J) {
        if self.violations.len() < 50 {
            self.violations.push(Violation { sig: sig.into(), what: what.into(), replay });
        } else {
            self.count("violations_dropped_over_cap");
        }
    }
    pub fn infra(&mut self, msg: impl Into<String>) {
        if self.infra_errors.len() < 20 {
            self.infra_errors.push(msg.into());
        }
        self.count("infra_errors");
    }

    pub fn to_json(&self) -> J {
        let mut j = J::obj();
        j.set("evaluations", J::i(self.evaluations as i64));
        let mut hs: Vec<J> = self.distinct.iter().take(200_000).map(|h| J::s(format!("{h:016x}"))).collect();
        hs.sort_by(|a, b| a.as_str().cmp(&b.as_str()));
        j.set("distinct_hashes", J::Arr(hs));
        j.set("distinct_extra", J::i(self.distinct_extra as i64));
        let mut c = J::obj();
        for (k, v) in &self.counters {
            c.set(k, J::i(*v as i64));
        }
        j.set("counters", c);
        let mut d = J::obj();
        for (k, v) in &self.discards {
            d.set(k, J::i(*v as i64));
        }
        j.set("discards", d);
        j.set("samples", J::Arr(self.samples.clone()));
        let vs: Vec<J> = self
            .violations
            .iter()
            .map(|v| J::obj().with("sig", J::s(v.sig.clone())).with("what", J::s(v.what.clone())).with("replay", v.replay.clone()))
            .collect();
        j.set("violations", J::Arr(vs));
        j.set("infra_errors", J::arr(self.infra_errors.iter().cloned()));
        if let Some(e) = self.exhaustive {
            j.set("exhaustive", J::Bool(e));
        }
        j.set("notes", J::arr(self.notes.iter().cloned()));
        j
    }
}

pub fn run_prop(ctx: &Ctx, acc: &mut Acc) -> Result<(), String> {
    match ctx.prop.as_str() {
        "C01" => c01::run(ctx, acc),
        "C02" => middle::c02(ctx, acc),
        "C03" => middle::c03(ctx, acc),
        "C04" => middle::c04(ctx, acc),
        "C05" => middle::c05(ctx, acc),
        "C12" => middle::c12(ctx, acc),
        "C11" => c11::run(ctx, acc),
        "C14" => c14::run(ctx, acc),
        "C15" => c15::run(ctx, acc),
        "C16" => c16::run(ctx, acc),
        "C17" => c17::run(ctx, acc),
        "C18" => c18::run(ctx, acc),
        "C19" => c19::run(ctx, acc),
        "C20" => c20::run(ctx, acc),
        "C06" | "C07" | "C08" | "C09" | "C10" | "C13" => backend::run(ctx, acc),
        other => return Err(format!("unknown property {other}")),
    }
    Ok(())
}

pub fn replay_prop(prop: &str, payload: &J, acc: &mut Acc) -> Result<(), String> {
    match prop {
        "C01" => c01::replay(payload, acc),
        "C02" | "C03" | "C04" | "C05" | "C12" => middle::replay(prop, payload, acc),
        "C11" => c11::replay(payload, acc),
        "C14" => c14::replay(payload, acc),
        "C15" => c15::replay(payload, acc),
        "C16" => c16::replay(payload, acc),
        "C17" => c17::replay(payload, acc),
        "C18" => c18::replay(payload, acc),
        "C19" => c19::replay(payload, acc),
        "C20" => c20::replay(payload, acc),
        "C06" | "C07" | "C08" | "C09" | "C10" | "C13" => backend::replay(prop, payload, acc),
        other => return Err(format!("unknown property {other}")),
    }
    Ok(())
}

pub fn hash_text(s: &str) -> u64 {
    crate::rng::hash_str(s)
}
