//! C02 (Fun->Core), C03 (focusing), C04 (shrinking), C05 (linearization), C12 (typing of every
//! intermediate program / no internal failure): reference machines and structural monitors on the
//! values the real stages produce.

use super::chain::*;
use super::{Acc, Ctx};
use crate::gen_fun::{EffectMode, NamePolicy};
use crate::json::J;
use crate::pipeline::{self, StageErr};
use crate::sem_axcut;
use crate::sem_core;
use crate::trace::{self, Outcome, Undefined};
use crate::ty_axcut;
use crate::ty_core;

fn replay_json(kind: &str, src: &str, args: &[i64], detail: &str, origin: &str) -> J {
    J::obj()
        .with("kind", J::s(kind))
        .with("src", J::s(src))
        .with("args", args_json(args))
        .with("detail", J::s(detail))
        .with("origin", J::s(origin))
}

fn is_stuck(o: &Outcome) -> Option<String> {
    match &o.end {
        Err(Undefined::Stuck(m)) => Some(m.clone()),
        Err(Undefined::Internal(m)) => Some(m.to_string()),
        _ => None,
    }
}

// ------------------------------------------------------------------ C02

pub fn c02_judge(acc: &mut Acc, src: &str, args: &[i64], reference: &Outcome, label: &str, origin: &str) -> bool {
    let checked = match pipeline::front(src) {
        Ok(c) => c,
        Err(e) => {
            acc.discard(&format!("front end rejects the program ({}): C15's business", e.describe().chars().take(30).collect::<String>()));
            return false;
        }
    };
    let core = match pipeline::to_core(checked) {
        Ok(c) => c,
        Err(e) => {
            acc.violation(format!("C02:panic:{label}"), format!("translation panics: {}", e.describe()), replay_json("fun-core", src, args, &e.describe(), origin));
            return false;
        }
    };
    let ir = sem_core::from_prog(&core);
    if let Some(p) = ir.problems.first() {
        acc.violation(format!("C02:names:{label}"), format!("translated program is ill-formed: {p}"), replay_json("fun-core", src, args, p, origin));
        return false;
    }
    let (got, st) = sem_core::run(&ir, args, &Default::default());
    acc.add("core_machine_steps", st.steps);
    acc.add("core_argument_frames", st.arg_frames);
    if let Some(m) = is_stuck(&got) {
        acc.violation(format!("C02:stuck:{label}"), format!("Core machine is stuck on the translation output: {m}"), replay_json("fun-core", src, args, &m, origin));
        return false;
    }
    if got.end == Err(Undefined::Fuel) {
        acc.discard("core machine budget exhausted (inconclusive)");
        return false;
    }
    if let Some(d) = trace::diff(reference, &got) {
        acc.violation(format!("C02:trace:{label}"), format!("Core program behaves differently from the source ({label} names): {d}"), replay_json("fun-core", src, args, &d, origin));
        return false;
    }
    true
}

pub fn c02(ctx: &Ctx, acc: &mut Acc) {
    let max_cases: u64 = if ctx.quick() { 6_000 } else { 100_000_000 };
    let mut i = 0u64;
    while ctx.time_left() && i < max_cases {
        let seed = ctx.case_seed(i);
        i += 1;
        let case = gen_fun_case(seed, EffectMode::PureArgs, |p, rng| {
            // shadowing pressure and hostile identifiers
            p.naming = match rng.below(10) {
                0..=4 => NamePolicy::Colliding,
                5..=8 => NamePolicy::Hostile,
                _ => NamePolicy::Unique,
            };
        });
        let mut any = false;
        for args in case.args.iter().take(2) {
            acc.evaluations += 1;
            let (reference, cst) = cek_ref(&case, args);
            if !reference.defined() {
                acc.discard(&format!("reference undefined: {:?}", reference.end));
                continue;
            }
            let origin = format!("gen_fun seed={seed} {}", case.profile.describe());
            let ok1 = c02_judge(acc, &case.src, args, &reference, "policy", &origin);
            let ok2 = c02_judge(acc, &case.twin, args, &reference, "unique", &origin);
            if ok1 && ok2 && (cst.steps >= 15 || !reference.prints.is_empty()) {
                any = true;
            }
        }
        if any {
            acc.nontrivial(case_hash(&case));
            acc.count(&format!("naming_{:?}", case.profile.naming));
            if acc.samples.len() < 3 {
                acc.sample(J::obj().with("src", J::s(case.src.clone())).with("args", args_json(&case.args[0])));
            }
        }
    }
    acc.add("programs", i);
}

// ------------------------------------------------------------------ C03

pub fn c03_judge(acc: &mut Acc, core: &core_lang::syntax::Prog, args: &[i64], src: &str, origin: &str) -> bool {
    let ir = sem_core::from_prog(core);
    let (reference, rst) = sem_core::run(&ir, args, &Default::default());
    if !reference.defined() {
        match &reference.end {
            Err(Undefined::Stuck(_)) | Err(Undefined::Internal(_)) => acc.discard("unfocused program is ill-formed (C02/C12's business)"),
            Err(u) => acc.discard(&format!("reference undefined: {u:?}")),
            _ => {}
        }
        return false;
    }
    acc.add("argument_frames_in_reference_runs", rst.arg_frames);
    acc.add("frame_resumes_in_reference_runs", rst.frame_resumes);
    let focused = match pipeline::focus(core.clone()) {
        Ok(f) => f,
        Err(e) => {
            acc.violation("C03:panic", format!("focusing panics: {}", e.describe()), replay_json("core-focus", src, args, &e.describe(), origin));
            return false;
        }
    };
    match ty_core::check_unique_fs(&focused) {
        Ok(n) => acc.add("binders_checked_for_uniqueness", n),
        Err(m) => {
            acc.violation("C03:uniq", format!("binders of the focused program are not unique: {m}"), replay_json("core-focus", src, args, &m, origin));
            return false;
        }
    }
    let irf = sem_core::from_fsprog(&focused);
    let (got, fst) = sem_core::run(&irf, args, &Default::default());
    if fst.arg_frames > 0 {
        acc.violation("C03:unfocused-argument", format!("a focused program still has {} non-variable arguments at run time", fst.arg_frames), replay_json("core-focus", src, args, "argument frames", origin));
        return false;
    }
    if got.end == Err(Undefined::Fuel) {
        acc.discard("core machine budget exhausted on the focused program (inconclusive)");
        return false;
    }
    if let Some(d) = trace::diff(&reference, &got) {
        acc.violation("C03:trace", format!("focused program behaves differently: {d}"), replay_json("core-focus", src, args, &d, origin));
        return false;
    }
    rst.arg_frames > 0
}

pub fn c03(ctx: &Ctx, acc: &mut Acc) {
    super::corpus::middle(ctx, acc);
    let max_cases: u64 = if ctx.quick() { 6_000 } else { 100_000_000 };
    let mut i = 0u64;
    while ctx.time_left() && i < max_cases {
        let seed = ctx.case_seed(i);
        i += 1;
        let case = gen_fun_case(seed, EffectMode::Anywhere, |_, _| {});
        let core = match pipeline::front(&case.src).and_then(pipeline::to_core) {
            Ok(c) => c,
            Err(_) => {
                acc.discard("front end / translation failed: other properties' business");
                continue;
            }
        };
        let mut any = false;
        for args in case.args.iter().take(2) {
            acc.evaluations += 1;
            if c03_judge(acc, &core, args, &case.src, &format!("gen_fun seed={seed}")) {
                any = true;
            }
        }
        // eta-expanded variant: argument shapes the translation never emits (must itself be well-typed)
        let mut rng = crate::rng::Rng::new(seed ^ 0xE7A);
        let (variant, n) = crate::core_eta::expand(&core, &mut rng);
        if n > 0 {
            if ty_core::check_prog(&variant).is_ok() {
                acc.add("eta_expansions_applied", n);
                for args in case.args.iter().take(1) {
                    acc.evaluations += 1;
                    acc.count("eta_variants_judged");
                    if c03_judge(acc, &variant, args, &case.src, &format!("gen_fun seed={seed} eta-expanded Core variant ({n} expansions, rng {:#x})", seed ^ 0xE7A)) {
                        any = true;
                    }
                }
            } else {
                acc.count("eta_variants_ill_typed_by_construction_error");
            }
        }
        // variant with shadowing binders (the translation never shadows; hand-built Core may)
        let mut rng2 = crate::rng::Rng::new(seed ^ 0x5AD0);
        let (shadowed, ns) = crate::core_shadow::introduce(&core, &mut rng2);
        if ns > 0 {
            if ty_core::check_prog(&shadowed).is_ok() {
                acc.add("shadowing_binders_introduced", ns);
                for args in case.args.iter().take(1) {
                    acc.evaluations += 1;
                    acc.count("shadowing_variants_judged");
                    if c03_judge(acc, &shadowed, args, &case.src, &format!("gen_fun seed={seed} Core variant with {ns} shadowing binders (rng {:#x})", seed ^ 0x5AD0)) {
                        any = true;
                    }
                }
            } else {
                acc.count("shadowing_variants_ill_typed_by_construction_error");
            }
        }
        if any {
            acc.nontrivial(case_hash(&case));
            if acc.samples.len() < 3 {
                acc.sample(J::obj().with("src", J::s(case.src.clone())).with("args", args_json(&case.args[0])));
            }
        }
    }
    acc.add("programs", i);
}

// ------------------------------------------------------------------ C04

pub fn c04_judge(acc: &mut Acc, focused: &core_lang::syntax::program::FsProg, args: &[i64], src: &str, origin: &str) -> bool {
    let irf = sem_core::from_fsprog(focused);
    let (reference, st) = sem_core::run(&irf, args, &Default::default());
    if !reference.defined() {
        match &reference.end {
            Err(Undefined::Stuck(_)) | Err(Undefined::Internal(_)) => acc.discard("focused program is ill-formed (earlier stages' business)"),
            Err(u) => acc.discard(&format!("reference undefined: {u:?}")),
            _ => {}
        }
        return false;
    }
    for (k, v) in &st.shapes {
        acc.add(&format!("cut_shape_{k}"), *v);
    }
    let shrunk = match pipeline::shrink(focused.clone()) {
        Ok(s) => s,
        Err(e) => {
            acc.violation("C04:panic", format!("shrinking panics: {}", e.describe()), replay_json("focus-shrink", src, args, &e.describe(), origin));
            return false;
        }
    };
    match ty_axcut::lifted_params_cover(&shrunk, |n| n.name.starts_with("lift_") && n.id > 0) {
        Ok(n) => acc.add("lifted_definitions_checked", n),
        Err(m) => {
            acc.violation("C04:lift", m.clone(), replay_json("focus-shrink", src, args, &m, origin));
            return false;
        }
    }
    let (got, ast) = sem_axcut::run(&shrunk, args, sem_axcut::Mode::Named, &Default::default());
    acc.add("axcut_steps", ast.steps);
    if let Some(m) = is_stuck(&got) {
        acc.violation("C04:stuck", format!("AxCut machine is stuck on the shrunk program: {m}"), replay_json("focus-shrink", src, args, &m, origin));
        return false;
    }
    if got.end == Err(Undefined::Fuel) {
        acc.discard("AxCut machine budget exhausted (inconclusive)");
        return false;
    }
    if let Some(d) = trace::diff(&reference, &got) {
        acc.violation("C04:trace", format!("shrunk program behaves differently: {d}"), replay_json("focus-shrink", src, args, &d, origin));
        return false;
    }
    st.cuts_cbv + st.cuts_cbn > 3
}

pub fn c04(ctx: &Ctx, acc: &mut Acc) {
    super::corpus::middle(ctx, acc);
    let max_cases: u64 = if ctx.quick() { 6_000 } else { 100_000_000 };
    let mut i = 0u64;
    while ctx.time_left() && i < max_cases {
        let seed = ctx.case_seed(i);
        i += 1;
        let case = gen_fun_case(seed, EffectMode::Anywhere, |_, _| {});
        let focused = match pipeline::front(&case.src).and_then(pipeline::to_core).and_then(pipeline::focus) {
            Ok(c) => c,
            Err(_) => {
                acc.discard("earlier stage failed: other properties' business");
                continue;
            }
        };
        let mut any = false;
        for args in case.args.iter().take(2) {
            acc.evaluations += 1;
            if c04_judge(acc, &focused, args, &case.src, &format!("gen_fun seed={seed}")) {
                any = true;
            }
        }
        if any {
            acc.nontrivial(case_hash(&case));
            if acc.samples.len() < 3 {
                acc.sample(J::obj().with("src", J::s(case.src.clone())).with("args", args_json(&case.args[0])));
            }
        }
    }
    acc.add("programs", i);
}

// ------------------------------------------------------------------ C05

pub fn c05_judge(acc: &mut Acc, shrunk: &axcut::syntax::Prog, args_list: &[Vec<i64>], src: &str, origin: &str) -> bool {
    use printer::Print;
    let rj = |args: &[i64], detail: &str| {
        let mut j = replay_json("shrink-linearize", src, args, detail, origin);
        j.set("nonlinear_text", J::s(shrunk.print_to_string(None)));
        j
    };
    let linear = match pipeline::linearize(shrunk.clone()) {
        Ok(l) => l,
        Err(e) => {
            acc.violation("C05:panic", format!("linearization panics: {}", e.describe()), rj(&[], &e.describe()));
            return false;
        }
    };
    // static: every path
    match ty_axcut::check_linear(&linear) {
        Ok(st) => {
            acc.add("statements_typed_linearly", st.statements);
            acc.add("substitutions_inserted", st.substitutes);
            acc.max("max_env", st.max_env as u64);
            for (k, v) in &st.kinds {
                acc.add(&format!("stmt_{k}"), *v);
            }
        }
        Err(m) => {
            acc.violation("C05:linear-typing", format!("linearized program is not well-typed under the ordered linear discipline: {m}"), rj(&[], &m));
            return false;
        }
    }
    let mut any = false;
    for args in args_list {
        acc.evaluations += 1;
        let (reference, _) = sem_axcut::run(shrunk, args, sem_axcut::Mode::Named, &Default::default());
        if !reference.defined() {
            match &reference.end {
                Err(Undefined::Stuck(_)) | Err(Undefined::Internal(_)) => acc.discard("non-linear program is ill-formed (earlier stages' business)"),
                Err(u) => acc.discard(&format!("reference undefined: {u:?}")),
                _ => {}
            }
            continue;
        }
        let (got, st) = sem_axcut::run(&linear, args, sem_axcut::Mode::Positional, &Default::default());
        if let Some(m) = is_stuck(&got) {
            acc.violation("C05:positional", format!("positional machine assertion on the linearized program: {m}"), rj(args, &m));
            return false;
        }
        if got.end == Err(Undefined::Fuel) {
            // the linearized program needs more steps (explicit substitutions): inconclusive
            acc.discard("AxCut machine budget exhausted on the linearized program (inconclusive)");
            continue;
        }
        if let Some(d) = trace::diff(&reference, &got) {
            acc.violation("C05:trace", format!("linearized program behaves differently: {d}"), rj(args, &d));
            return false;
        }
        acc.add("substitutions_executed", st.substitutes);
        if st.substitutes > 0 {
            any = true;
        }
    }
    any
}

/// a directly generated non-linear AxCut program (regenerated from its seed on replay)
pub fn axgen_case(seed: u64, prints: bool) -> (axcut::syntax::Prog, Vec<Vec<i64>>) {
    let mut rng = crate::rng::Rng::new(seed);
    let prof = crate::gen_axcut::AxProfile::random(&mut rng, prints);
    let prog = crate::gen_axcut::generate(&mut rng, prof);
    let n = prog.defs[0].context.bindings.len();
    let args = vec![(0..n).map(|_| rng.range(-5, 9)).collect::<Vec<i64>>(), (0..n).map(|_| rng.small_i64()).collect()];
    (prog, args)
}

pub fn c05(ctx: &Ctx, acc: &mut Acc) {
    super::corpus::middle(ctx, acc);
    let max_cases: u64 = if ctx.quick() { 6_000 } else { 100_000_000 };
    let mut i = 0u64;
    while ctx.time_left() && i < max_cases {
        let seed = ctx.case_seed(i);
        i += 1;
        if i % 2 == 0 {
            // directly generated AxCut program
            let (prog, args) = axgen_case(seed, true);
            match ty_axcut::check_named(&prog) {
                Ok(_) => {}
                Err(m) => {
                    acc.infra(format!("gen_axcut produced an ill-typed program (generator defect): {m}"));
                    continue;
                }
            }
            acc.count("directly_generated_axcut_programs");
            let origin = format!("gen_axcut seed={seed}");
            let before = acc.violations.len();
            if c05_judge(acc, &prog, &args, "", &origin) {
                acc.nontrivial(seed);
            }
            for v in acc.violations.iter_mut().skip(before) {
                v.replay.set("axgen_seed", J::s(seed.to_string()));
            }
            continue;
        }
        let case = gen_fun_case(seed, EffectMode::Anywhere, |_, _| {});
        let shrunk = match pipeline::front(&case.src).and_then(pipeline::to_core).and_then(pipeline::focus).and_then(pipeline::shrink) {
            Ok(c) => c,
            Err(_) => {
                acc.discard("earlier stage failed: other properties' business");
                continue;
            }
        };
        if ty_axcut::check_named(&shrunk).is_err() {
            acc.discard("non-linear program is ill-typed (C12's business)");
            continue;
        }
        let args: Vec<Vec<i64>> = case.args.iter().take(2).cloned().collect();
        if c05_judge(acc, &shrunk, &args, &case.src, &format!("gen_fun seed={seed}")) {
            acc.nontrivial(case_hash(&case));
            if acc.samples.len() < 3 {
                acc.sample(J::obj().with("src", J::s(case.src.clone())).with("args", args_json(&case.args[0])));
            }
        }
    }
    acc.add("programs", i);
}

// ------------------------------------------------------------------ C12

fn stage_fail(acc: &mut Acc, e: &StageErr, src: &str, origin: &str) {
    if e.is_capacity() {
        acc.discard("documented capacity limit");
    } else if let StageErr::Panic { stage, msg } = e {
        let site = msg.rsplit(" @ ").next().unwrap_or("").to_string();
        acc.violation(format!("C12:panic:{stage}:{site}"), format!("internal failure in {stage}: {msg}"), replay_json("typed-stages", src, &[], msg, origin));
    }
}

/// returns true if all stages were reached and type check
pub fn c12_judge(acc: &mut Acc, src: &str, origin: &str) -> bool {
    let checked = match pipeline::front(src) {
        Ok(c) => c,
        Err(e) => {
            match &e {
                StageErr::Panic { .. } => acc.discard("checker/parser panic (C18's business)"),
                _ => acc.discard("rejected by the checker (not an accepted program)"),
            }
            return false;
        }
    };
    acc.count("accepted_programs");
    let rj = |m: &str| replay_json("typed-stages", src, &[], m, origin);
    let core = match pipeline::to_core(checked) {
        Ok(c) => c,
        Err(e) => {
            stage_fail(acc, &e, src, origin);
            return false;
        }
    };
    match ty_core::check_prog(&core) {
        Ok(s) => acc.add("core_nodes_typed", s.nodes),
        Err(m) => {
            acc.violation("C12:ill-typed:core", format!("Core program is ill-typed: {m}"), rj(&m));
            return false;
        }
    }
    let mut uniq = core.clone();
    match pipeline::guarded("uniquify", move || {
        uniq.uniquify();
        uniq
    }) {
        Ok(u) => {
            if let Err(m) = ty_core::check_prog(&u) {
                acc.violation("C12:ill-typed:uniquified", format!("uniquified Core program is ill-typed: {m}"), rj(&m));
                return false;
            }
        }
        Err(e) => {
            stage_fail(acc, &e, src, origin);
            return false;
        }
    }
    let focused = match pipeline::focus(core) {
        Ok(f) => f,
        Err(e) => {
            stage_fail(acc, &e, src, origin);
            return false;
        }
    };
    match ty_core::check_fsprog(&focused) {
        Ok(s) => acc.add("focused_nodes_typed", s.nodes),
        Err(m) => {
            acc.violation("C12:ill-typed:focused", format!("focused Core program is ill-typed: {m}"), rj(&m));
            return false;
        }
    }
    let shrunk = match pipeline::shrink(focused) {
        Ok(f) => f,
        Err(e) => {
            stage_fail(acc, &e, src, origin);
            return false;
        }
    };
    match ty_axcut::check_named(&shrunk) {
        Ok(s) => {
            acc.add("axcut_statements_typed", s.statements);
            acc.add("axcut_rebinding_events_recorded", s.rebinds);
        }
        Err(m) => {
            acc.violation("C12:ill-typed:axcut", format!("AxCut program is ill-typed: {m}"), rj(&m));
            return false;
        }
    }
    let linear = match pipeline::linearize(shrunk) {
        Ok(f) => f,
        Err(e) => {
            stage_fail(acc, &e, src, origin);
            return false;
        }
    };
    match ty_axcut::check_linear(&linear) {
        Ok(s) => acc.add("linear_statements_typed", s.statements),
        Err(m) => {
            acc.violation("C12:ill-typed:linear", format!("linearized AxCut program is ill-typed: {m}"), rj(&m));
            return false;
        }
    }
    // main must be valid for the code generators (at most five integer parameters)
    let main_ok = linear.defs.first().is_some_and(|d| d.context.bindings.len() <= 5);
    if main_ok {
        for (name, r) in [("x86_64", pipeline::x86(linear.clone()).map(|_| ())), ("aarch64", pipeline::a64(linear.clone()).map(|_| ())), ("rv64", pipeline::rv64(linear.clone()).map(|_| ()))] {
            match r {
                Ok(()) => acc.count(&format!("codegen_ok_{name}")),
                Err(e) => {
                    if e.is_capacity() {
                        acc.count(&format!("codegen_capacity_{name}"));
                    } else if name == "rv64" && e.is_rv_unimplemented() {
                        acc.count("codegen_rv64_print_not_implemented");
                    } else {
                        stage_fail(acc, &e, src, origin);
                        return false;
                    }
                }
            }
        }
    }
    true
}

pub fn c12(ctx: &Ctx, acc: &mut Acc) {
    super::corpus::middle(ctx, acc);
    let max_cases: u64 = if ctx.quick() { 6_000 } else { 100_000_000 };
    let mut i = 0u64;
    while ctx.time_left() && i < max_cases {
        let seed = ctx.case_seed(i);
        i += 1;
        let mode = [EffectMode::Anywhere, EffectMode::Sequenced, EffectMode::PureArgs][(seed % 3) as usize];
        let case = gen_fun_case(seed, mode, |_, _| {});
        acc.evaluations += 1;
        if c12_judge(acc, &case.src, &format!("gen_fun seed={seed}")) {
            acc.nontrivial(case_hash(&case));
            if acc.samples.len() < 2 {
                acc.sample(J::obj().with("src", J::s(case.src.clone())));
            }
        }
        // accepted survivors of token mutations: programs the generator did not design
        let mut rng = crate::rng::Rng::new(seed ^ 0xC12);
        for _ in 0..4 {
            let (m, what) = crate::mutate::mutate_tokens(&case.src, &mut rng);
            if m == case.src {
                continue;
            }
            acc.evaluations += 1;
            let before = acc.counters.get("accepted_programs").copied().unwrap_or(0);
            let ok = c12_judge(acc, &m, &format!("gen_fun seed={seed} token mutation: {what}"));
            let after = acc.counters.get("accepted_programs").copied().unwrap_or(0);
            if after > before {
                acc.count("mutants_accepted_by_the_checker");
                if ok {
                    acc.nontrivial(crate::rng::hash_str(&m));
                }
            }
        }
        // single structured edits (the classes of C15, on the uniquely named variant of the program):
        // the checker rejects them on a correct tree (discards); whatever it accepts must still
        // pass through every stage well-scoped and well-typed
        let ucase = gen_fun_case(seed, mode, |p, _| p.naming = crate::gen_fun::NamePolicy::Unique);
        let (text, sites) = crate::apr::print_prog_sites(&ucase.prog, crate::apr::Naming::Policy);
        let classes = super::c15::CLASSES;
        for k in 0..4 {
            let class = if k == 0 { "variable-used-outside-its-scope" } else { classes[rng.below(classes.len())] };
            let Some(m) = super::c15::mutate(&ucase.prog, &text, &sites, class, &mut rng) else { continue };
            acc.evaluations += 1;
            let before = acc.counters.get("accepted_programs").copied().unwrap_or(0);
            let ok = c12_judge(acc, &m, &format!("gen_fun seed={seed} (unique names) single edit: {class}"));
            let after = acc.counters.get("accepted_programs").copied().unwrap_or(0);
            if after > before {
                acc.count("edits_accepted_by_the_checker");
                if ok {
                    acc.nontrivial(crate::rng::hash_str(&m));
                }
            }
        }
    }
    acc.add("programs", i);
}

// ------------------------------------------------------------------ replay

pub fn replay(prop: &str, payload: &J, acc: &mut Acc) {
    let src = payload.get("src").and_then(|s| s.as_str()).unwrap_or("").to_string();
    let args = args_from_json(payload.get("args"));
    acc.evaluations += 1;
    match prop {
        "C02" => {
            // the expected behaviour is not stored: re-derive from the alpha-twin is impossible without the APR;
            // replay compares the Core machine of the program with the one of its own focused/shrunk chain instead
            acc.infra("C02 replay needs the generator seed (see 'origin' in the replay file); run the check with VERIF_SEED");
        }
        "C03" => {
            if let Ok(core) = pipeline::front(&src).and_then(pipeline::to_core) {
                c03_judge(acc, &core, &args, &src, "replay");
            }
        }
        "C04" => {
            if let Ok(f) = pipeline::front(&src).and_then(pipeline::to_core).and_then(pipeline::focus) {
                c04_judge(acc, &f, &args, &src, "replay");
            }
        }
        "C05" if payload.get("axgen_seed").is_some() => {
            let seed: u64 = payload.get("axgen_seed").and_then(|s| s.as_str()).and_then(|s| s.parse().ok()).unwrap_or(0);
            let (prog, args) = axgen_case(seed, true);
            c05_judge(acc, &prog, &args, "", "replay");
        }
        "C05" => {
            if let Ok(s) = pipeline::front(&src).and_then(pipeline::to_core).and_then(pipeline::focus).and_then(pipeline::shrink) {
                c05_judge(acc, &s, &[args], &src, "replay");
            }
        }
        "C12" => {
            c12_judge(acc, &src, "replay");
        }
        _ => {}
    }
}
