//! C19 — output size is polynomial: scalable families with source size linear in k; the size of
//! every stage output may at most grow by a factor 12 when k doubles (a cubic approaches 8,
//! 2^k reaches 16 at k = 4).

use super::{Acc, Ctx};
use crate::json::J;
use crate::pipeline;
use std::time::Instant;

const DECLS: &str = "data T3 { A, B, C }\ndata T5 { K1, K2(x: i64), K3(x: i64, y: i64), K4, K5(t: T3) }\ncodata Obj3 { m1: i64, m2(x: i64): i64, m3: Obj3 }\ncodata Fun { ap(x: i64): i64 }\ndef mk(n: i64): T3 { if n == 0 { A } else { if n == 1 { B } else { C } } }\ndef mk5(n: i64): T5 { if n == 0 { K1 } else { if n == 1 { K2(n) } else { if n == 2 { K3(n, n) } else { if n == 3 { K4 } else { K5(mk(n)) } } } } }\ndef obj(n: i64): Obj3 { new { m1 => n, m2(x) => x + n, m3 => obj(n + 1) } }\ndef id(x: i64): i64 { x }\ndef add3(a: i64, b: i64, c: i64): i64 { a + (b + c) }\n";

pub struct Family {
    pub name: &'static str,
    pub make: fn(usize) -> String,
}

fn wrap(body: String) -> String {
    format!("{DECLS}def main(a: i64): i64 {{\n{body}\n}}\n")
}

fn seq_if(k: usize) -> String {
    let mut b = String::new();
    let mut prev = "a".to_string();
    for i in 0..k {
        b.push_str(&format!("  let x{i}: i64 = if {prev} <= {i} {{ {prev} + 1 }} else {{ {prev} - 1 }};\n"));
        prev = format!("x{i}");
    }
    b.push_str(&format!("  {prev}"));
    wrap(b)
}

fn nested_if_operands(k: usize) -> String {
    // operator tree over conditionals: (if ..) + ((if ..) + (...))
    let mut e = "a".to_string();
    for i in 0..k {
        e = format!("(if a == {i} {{ {i} }} else {{ a }}) + ({e})");
    }
    wrap(format!("  {e}"))
}

fn if_in_condition(k: usize) -> String {
    // conditional whose operand is a conditional, k deep
    let mut e = "a".to_string();
    for i in 0..k {
        e = format!("(if ({e}) < {i} {{ 1 }} else {{ 2 }})");
    }
    wrap(format!("  {e}"))
}

fn seq_case3(k: usize) -> String {
    let mut b = String::new();
    let mut prev = "a".to_string();
    for i in 0..k {
        b.push_str(&format!("  let x{i}: i64 = mk({prev}).case {{ A => {prev} + 1, B => {prev} * 2, C => {prev} - 3 }};\n"));
        prev = format!("x{i}");
    }
    b.push_str(&format!("  {prev}"));
    wrap(b)
}

fn seq_case5(k: usize) -> String {
    let mut b = String::new();
    let mut prev = "a".to_string();
    for i in 0..k {
        b.push_str(&format!(
            "  let x{i}: i64 = mk5({prev}).case {{ K1 => 1, K2(p) => p + {prev}, K3(p, q) => p * q, K4 => {prev}, K5(t) => t.case {{ A => 1, B => 2, C => 3 }} }};\n"
        ));
        prev = format!("x{i}");
    }
    b.push_str(&format!("  {prev}"));
    wrap(b)
}

fn nested_case(k: usize) -> String {
    // case whose scrutinee is a case returning data, k deep
    let mut e = "mk(a)".to_string();
    for _ in 0..k {
        e = format!("{e}.case {{ A => B, B => C, C => A }}");
    }
    wrap(format!("  {e}.case {{ A => 0, B => 1, C => 2 }}"))
}

fn critical_pairs_data(k: usize) -> String {
    // let x: T = label a { ... } over a multi-constructor type, sequenced
    let mut b = String::new();
    for i in 0..k {
        b.push_str(&format!("  let t{i}: T3 = label k{i} {{ if a == {i} {{ goto k{i}(A) }} else {{ mk(a) }} }};\n"));
    }
    b.push_str("  ");
    let mut e = "0".to_string();
    for i in 0..k {
        e = format!("(t{i}.case {{ A => 1, B => 2, C => 3 }}) + ({e})");
    }
    b.push_str(&e);
    wrap(b)
}

fn critical_pairs_codata(k: usize) -> String {
    let mut b = String::new();
    for i in 0..k {
        b.push_str(&format!("  let o{i}: Obj3 = label k{i} {{ if a == {i} {{ goto k{i}(obj({i})) }} else {{ obj(a) }} }};\n"));
    }
    b.push_str("  ");
    let mut e = "0".to_string();
    for i in 0..k {
        e = format!("(o{i}.m2({i})) + ({e})");
    }
    b.push_str(&e);
    wrap(b)
}

fn nested_critical(k: usize) -> String {
    let mut e = "mk(a)".to_string();
    for i in 0..k {
        e = format!("label k{i} {{ let t{i}: T3 = {e}; t{i}.case {{ A => goto k{i}(B), B => C, C => t{i} }} }}");
    }
    wrap(format!("  ({e}).case {{ A => 0, B => 1, C => 2 }}"))
}

fn calls_with_conditional_args(k: usize) -> String {
    let mut e = "a".to_string();
    for i in 0..k {
        e = format!("add3(if a == {i} {{ 1 }} else {{ 2 }}, if a < {i} {{ a }} else {{ {i} }}, {e})");
    }
    wrap(format!("  {e}"))
}

fn prints_of_conditionals(k: usize) -> String {
    let mut b = String::new();
    for i in 0..k {
        b.push_str(&format!("  println_i64(if a == {i} {{ mk(a).case {{ A => 1, B => 2, C => 3 }} }} else {{ {i} }});\n"));
    }
    b.push_str("  0");
    wrap(b)
}

fn dtor_chains_over_conditionals(k: usize) -> String {
    let mut e = "obj(a)".to_string();
    for i in 0..k {
        e = format!("(if a == {i} {{ {e} }} else {{ obj({i}) }}).m3");
    }
    wrap(format!("  {e}.m1"))
}

fn nested_if_then(k: usize) -> String {
    // nesting in one branch only: source stays linear
    let mut e = "a".to_string();
    for i in 0..k {
        e = format!("if a == {i} {{ {i} }} else {{ let y{i}: i64 = {e}; y{i} + 1 }}");
    }
    wrap(format!("  {e}"))
}

fn lets_over_cases_with_new(k: usize) -> String {
    let mut b = String::new();
    for i in 0..k {
        b.push_str(&format!("  let f{i}: Fun = mk(a).case {{ A => new {{ ap(x) => x + {i} }}, B => new {{ ap(x) => x * {i} }}, C => new {{ ap(x) => a }} }};\n"));
    }
    let mut e = "a".to_string();
    for i in 0..k {
        e = format!("f{i}.ap({e})");
    }
    b.push_str(&format!("  {e}"));
    wrap(b)
}

fn nested_let_call_case(k: usize) -> String {
    // let x: T = f(..); x.case { .., C => <next link> } nested in the last clause
    let mut e = "a".to_string();
    for i in (0..k).rev() {
        e = format!("let t{i}: T3 = mk(a + {i});\n  t{i}.case {{ A => {i}, B => a, C => {e} }}");
    }
    wrap(format!("  {e}"))
}

fn nested_let_call_case5(k: usize) -> String {
    let mut e = "a".to_string();
    for i in (0..k).rev() {
        e = format!("let t{i}: T5 = mk5(a + {i});\n  t{i}.case {{ K1 => {i}, K2(p{i}) => p{i}, K3(p{i}, q{i}) => {e}, K4 => a, K5(u{i}) => 5 }}");
    }
    wrap(format!("  {e}"))
}

fn nested_let_call_codata(k: usize) -> String {
    // let o: Obj3 = obj(..); a destructor on it, the next link nested in the argument-free continuation
    let mut e = "a".to_string();
    for i in (0..k).rev() {
        e = format!("let o{i}: Obj3 = obj(a + {i});\n  let y{i}: i64 = o{i}.m2({i});\n  if y{i} == {i} {{ {i} }} else {{ {e} }}");
    }
    wrap(format!("  {e}"))
}

fn nested_case_in_new_clause(k: usize) -> String {
    let mut e = "x0 + a".to_string();
    for i in (0..k).rev() {
        e = format!("let f{i}: Fun = mk(a + {i}).case {{ A => new {{ ap(x{i}) => x{i} }}, B => new {{ ap(x{i}) => {i} }}, C => new {{ ap(x{i}) => {i} + x{i} }} }};\n  f{i}.ap({e})", e = if i + 1 == k { "a".to_string() } else { e.clone() });
    }
    wrap(format!("  {e}"))
}

fn nested_label_call_case(k: usize) -> String {
    let mut e = "a".to_string();
    for i in (0..k).rev() {
        e = format!("let t{i}: T3 = label k{i} {{ if a == {i} {{ goto k{i}(B) }} else {{ mk(a) }} }};\n  t{i}.case {{ A => {i}, B => {e}, C => a }}");
    }
    wrap(format!("  {e}"))
}

fn nested_if_after_let_call(k: usize) -> String {
    let mut e = "a".to_string();
    for i in (0..k).rev() {
        e = format!("let n{i}: i64 = id(a + {i});\n  if n{i} == {i} {{ {i} }} else {{ {e} }}");
    }
    wrap(format!("  {e}"))
}

pub const FAMILIES: &[Family] = &[
    Family { name: "let of a call then match, next link nested in a clause (3 constructors)", make: nested_let_call_case },
    Family { name: "let of a call then match, next link nested in a clause (5 constructors)", make: nested_let_call_case5 },
    Family { name: "let of an object then destructor and conditional, nested", make: nested_let_call_codata },
    Family { name: "objects selected by a match, applied in a chain", make: nested_case_in_new_clause },
    Family { name: "let of a label block then match, nested in a clause", make: nested_label_call_case },
    Family { name: "let of a call then conditional, nested in the else branch", make: nested_if_after_let_call },
    Family { name: "sequenced conditionals", make: seq_if },
    Family { name: "operator tree over conditionals", make: nested_if_operands },
    Family { name: "conditional in condition", make: if_in_condition },
    Family { name: "sequenced matches (3 constructors)", make: seq_case3 },
    Family { name: "sequenced matches (5 constructors)", make: seq_case5 },
    Family { name: "match of match", make: nested_case },
    Family { name: "critical pairs over data", make: critical_pairs_data },
    Family { name: "critical pairs over codata", make: critical_pairs_codata },
    Family { name: "nested critical pairs", make: nested_critical },
    Family { name: "calls with conditional arguments", make: calls_with_conditional_args },
    Family { name: "prints of conditionals", make: prints_of_conditionals },
    Family { name: "destructor chains over conditionals", make: dtor_chains_over_conditionals },
    Family { name: "nested conditional in else branch", make: nested_if_then },
    Family { name: "lets over matches returning objects", make: lets_over_cases_with_new },
];

pub fn measure(src: &str) -> Result<Vec<(&'static str, usize)>, String> {
    measure_limited(src, None)
}

/// Sizes of all stage outputs.  With `prev` (the sizes at k/2) the later stages are skipped as soon
/// as one stage is more than 12 times its earlier size: the verdict is already decided and the
/// remaining stages of an exponentially large program would only cost time.
pub fn measure_limited(src: &str, prev: Option<&Vec<(&'static str, usize)>>) -> Result<Vec<(&'static str, usize)>, String> {
    use printer::Print;
    let blown = |v: &Vec<(&'static str, usize)>| -> bool {
        let Some(p) = prev else { return false };
        let (st, n) = v.last().unwrap();
        p.iter().find(|x| x.0 == *st).is_some_and(|(_, a)| *n as f64 > 12.0 * (*a).max(1) as f64)
    };
    let checked = pipeline::front(src).map_err(|e| e.describe())?;
    let core = pipeline::to_core(checked).map_err(|e| e.describe())?;
    let mut v = vec![("source", src.len()), ("core", core.print_to_string(None).len())];
    if blown(&v) {
        return Ok(v);
    }
    let fs = pipeline::focus(core).map_err(|e| e.describe())?;
    v.push(("focused", fs.print_to_string(None).len()));
    if blown(&v) {
        return Ok(v);
    }
    let sh = pipeline::shrink(fs).map_err(|e| e.describe())?;
    v.push(("shrunk", sh.print_to_string(None).len()));
    if blown(&v) {
        return Ok(v);
    }
    let lin = pipeline::linearize(sh).map_err(|e| e.describe())?;
    v.push(("linearized", lin.print_to_string(None).len()));
    if blown(&v) {
        return Ok(v);
    }
    let count = |t: &str, comment: &str| t.lines().filter(|l| !l.trim().is_empty() && !l.trim_start().starts_with(comment)).count();
    match pipeline::x86(lin.clone()) {
        Ok(a) => v.push(("x86_64 instructions", count(&a.text, ";"))),
        Err(e) if e.is_capacity() => {}
        Err(e) => return Err(e.describe()),
    }
    if blown(&v) {
        return Ok(v);
    }
    match pipeline::a64(lin.clone()) {
        Ok(a) => v.push(("aarch64 instructions", count(&a.text, "//"))),
        Err(e) if e.is_capacity() => {}
        Err(e) => return Err(e.describe()),
    }
    match pipeline::rv64(lin) {
        Ok(a) => v.push(("rv64 instructions", count(&a.text, "//"))),
        Err(_) => {}
    }
    Ok(v)
}

pub fn run(ctx: &Ctx, acc: &mut Acc) {
    let kmax = 16usize;
    for (fi, fam) in FAMILIES.iter().enumerate() {
        if fi % ctx.nshards != ctx.shard {
            continue;
        }
        // enough witnesses: exponential families are expensive to keep compiling
        if acc.violations.len() >= 4 {
            break;
        }
        let mut sizes: Vec<Option<Vec<(&'static str, usize)>>> = vec![None; kmax + 1];
        for k in 1..=kmax {
            if !ctx.time_left() {
                break;
            }
            let src = (fam.make)(k);
            acc.evaluations += 1;
            let t = Instant::now();
            let prev = if k % 2 == 0 { sizes[k / 2].clone() } else { None };
            match measure_limited(&src, prev.as_ref()) {
                Ok(m) => {
                    let secs = t.elapsed().as_secs_f64();
                    acc.max("max_compile_ms", (secs * 1000.0) as u64);
                    if secs > 60.0 {
                        acc.violation("C19:time", format!("family '{}' at k={k} takes {secs:.0} s to compile", fam.name), J::obj().with("kind", J::s("size")).with("family", J::s(fam.name)).with("k", J::i(k as i64)).with("src", J::s(src.clone())));
                    }
                    sizes[k] = Some(m);
                    acc.nontrivial(crate::rng::hash_str(&format!("{}:{k}", fam.name)));
                    // stop a family as soon as a doubling step is far beyond the bound (exponential growth
                    // makes larger k needlessly expensive; the violation is reported below)
                    if k % 2 == 0 && k / 2 >= 3 {
                        if let (Some(a), Some(b)) = (&sizes[k / 2], &sizes[k]) {
                            let blown = a.iter().skip(1).any(|(st, sa)| b.iter().find(|x| x.0 == *st).is_some_and(|(_, sb)| *sb as f64 > 12.0 * (*sa).max(1) as f64));
                            if blown {
                                break;
                            }
                        }
                    }
                }
                Err(e) => {
                    acc.infra(format!("family '{}' k={k} does not compile: {e}", fam.name));
                }
            }
        }
        // doubling rule
        for k in [3usize, 4, 6, 8] {
            let (Some(a), Some(b)) = (&sizes[k], &sizes[2 * k]) else { continue };
            let src_ratio = b[0].1 as f64 / a[0].1 as f64;
            for (stage, sa) in a.iter().skip(1) {
                let Some((_, sb)) = b.iter().find(|x| x.0 == *stage) else { continue };
                let ratio = *sb as f64 / (*sa).max(1) as f64;
                acc.max(&format!("max_doubling_ratio_x100 {stage}"), (ratio * 100.0) as u64);
                acc.count("doubling_comparisons");
                if ratio > 12.0 {
                    acc.violation(
                        format!("C19:growth:{}:{stage}", fam.name),
                        format!("family '{}': {stage} grows from {sa} (k={k}) to {sb} (k={}) — factor {ratio:.1} while the source grows by {src_ratio:.1}", fam.name, 2 * k),
                        J::obj().with("kind", J::s("size")).with("family", J::s(fam.name)).with("k", J::i(k as i64)).with("src", J::s((fam.make)(2 * k))),
                    );
                }
            }
        }
        if let (Some(a), Some(b)) = (&sizes[4], &sizes[16]) {
            acc.sample(J::obj().with("family", J::s(fam.name)).with("sizes_k4", J::Arr(a.iter().map(|(s, n)| J::s(format!("{s}={n}"))).collect())).with("sizes_k16", J::Arr(b.iter().map(|(s, n)| J::s(format!("{s}={n}"))).collect())));
        }
    }
    run_random(ctx, acc);
}

/// sizes at k = 3, 4, 6, 8, 12, 16 of one randomly composed shape; same doubling rule
fn judge_shape(acc: &mut Acc, shape: &super::c19gen::Shape, deadline: &dyn Fn() -> bool) -> bool {
    let name = shape.name();
    let mut sizes: std::collections::BTreeMap<usize, Vec<(&'static str, usize)>> = Default::default();
    for k in [3usize, 4, 6, 8, 12, 16] {
        if !deadline() {
            return false;
        }
        let src = super::c19gen::program(shape, k);
        acc.evaluations += 1;
        let prev = if k % 2 == 0 { sizes.get(&(k / 2)).cloned() } else { None };
        match measure_limited(&src, prev.as_ref()) {
            Ok(m) => {
                sizes.insert(k, m);
            }
            Err(e) => {
                acc.infra(format!("{name} k={k} does not compile: {e}"));
                return false;
            }
        }
        if k % 2 == 0 {
            if let (Some(a), Some(b)) = (sizes.get(&(k / 2)), sizes.get(&k)) {
                let src_ratio = b[0].1 as f64 / a[0].1 as f64;
                let mut blown = false;
                for (stage, sa) in a.iter().skip(1) {
                    let Some((_, sb)) = b.iter().find(|x| x.0 == *stage) else { continue };
                    let ratio = *sb as f64 / (*sa).max(1) as f64;
                    acc.max(&format!("max_doubling_ratio_x100 random shapes {stage}"), (ratio * 100.0) as u64);
                    acc.count("doubling_comparisons");
                    if ratio > 12.0 {
                        blown = true;
                        acc.violation(
                            format!("C19:growth:random:{}:{stage}", shape.to_code()),
                            format!("{name}: {stage} grows from {sa} (k={}) to {sb} (k={k}) — factor {ratio:.1} while the source grows by {src_ratio:.1}", k / 2),
                            J::obj().with("kind", J::s("random-shape")).with("shape", J::s(shape.to_code())).with("k", J::i(k as i64)).with("src", J::s(src.clone())),
                        );
                    }
                }
                if blown {
                    return false;
                }
            }
        }
    }
    true
}

pub fn run_random(ctx: &Ctx, acc: &mut Acc) {
    use super::c19gen::{Shape, BRANCHES, GLUES};
    // every branch x glue combination alone first (period 1), then random periodic shapes
    let mut idx = 0usize;
    for b in 0..BRANCHES {
        for g in 0..GLUES {
            idx += 1;
            if idx % ctx.nshards != ctx.shard || acc.violations.len() >= 4 || !ctx.time_left() {
                continue;
            }
            let shape = Shape { links: vec![(b, g)], closed: (b + g) % 2 == 1, in_helper: (b + 2 * g) % 3 == 0 };
            if judge_shape(acc, &shape, &|| true) {
                acc.count("single_link_shapes_judged");
                acc.nontrivial(crate::rng::hash_str(&shape.to_code()));
            }
        }
    }
    let mut i = 0u64;
    let max: u64 = if ctx.quick() { 300 } else { 1_000_000 };
    while ctx.time_left() && i < max && acc.violations.len() < 4 {
        let mut rng = crate::rng::Rng::new(ctx.case_seed(i));
        i += 1;
        let shape = Shape::random(&mut rng);
        if judge_shape(acc, &shape, &|| ctx.time_left()) {
            acc.count("random_shapes_judged");
            acc.nontrivial(crate::rng::hash_str(&shape.to_code()));
            if acc.samples.len() < 4 && i % 7 == 0 {
                acc.sample(J::obj().with("shape", J::s(shape.name())).with("source_k3", J::s(super::c19gen::program(&shape, 3))));
            }
        }
    }
}

pub fn replay(payload: &J, acc: &mut Acc) {
    if payload.get("kind").and_then(|k| k.as_str()) == Some("random-shape") {
        if let Some(shape) = payload.get("shape").and_then(|s| s.as_str()).and_then(super::c19gen::Shape::from_code) {
            judge_shape(acc, &shape, &|| true);
        }
        return;
    }
    let fam = payload.get("family").and_then(|s| s.as_str()).unwrap_or("");
    let ctx = Ctx { prop: "C19".into(), tier: super::Tier::Quick, seed: 1, shard: 0, nshards: 1, budget: std::time::Duration::from_secs(600), start: Instant::now() };
    let mut a2 = Acc::default();
    run(&ctx, &mut a2);
    for v in a2.violations {
        if v.sig.contains(fam) {
            acc.violations.push(v);
        }
    }
    acc.evaluations += a2.evaluations;
}
