//! Minimal JSON value, writer and parser (no external crates available offline beyond the lock).
use std::collections::BTreeMap;
use std::fmt::Write;

#[derive(Clone, Debug, PartialEq)]
pub enum J {
    Null,
    Bool(bool),
    Int(i64),
    Num(f64),
    Str(String),
    Arr(Vec<J>),
    Obj(BTreeMap<String, J>),
}

impl J {
    pub fn obj() -> J {
        J::Obj(BTreeMap::new())
    }
    pub fn set(&mut self, k: &str, v: J) -> &mut J {
        if let J::Obj(m) = self {
            m.insert(k.to_string(), v);
        }
        self
    }
    pub fn with(mut self, k: &str, v: J) -> J {
        self.set(k, v);
        self
    }
    pub fn get(&self, k: &str) -> Option<&J> {
        if let J::Obj(m) = self { m.get(k) } else { None }
    }
    pub fn as_str(&self) -> Option<&str> {
        if let J::Str(s) = self { Some(s) } else { None }
    }
    pub fn as_i64(&self) -> Option<i64> {
        match self {
            J::Int(i) => Some(*i),
            J::Num(f) => Some(*f as i64),
            _ => None,
        }
    }
    pub fn as_arr(&self) -> Option<&Vec<J>> {
        if let J::Arr(a) = self { Some(a) } else { None }
    }
    pub fn s(x: impl Into<String>) -> J {
        J::Str(x.into())
    }
    pub fn i(x: impl TryInto<i64>) -> J {
        J::Int(x.try_into().unwrap_or(i64::MAX))
    }
    pub fn arr<T: Into<J>>(xs: impl IntoIterator<Item = T>) -> J {
        J::Arr(xs.into_iter().map(Into::into).collect())
    }
    pub fn to_string(&self) -> String {
        let mut s = String::new();
        self.write(&mut s);
        s
    }
    fn write(&self, out: &mut String) {
        match self {
            J::Null => out.push_str("null"),
            J::Bool(b) => out.push_str(if *b { "true" } else { "false" }),
            J::Int(i) => {
                let _ = write!(out, "{i}");
            }
            J::Num(f) => {
                if f.is_finite() {
                    let _ = write!(out, "{f}");
                } else {
                    out.push_str("null");
                }
            }
            J::Str(s) => write_str(s, out),
            J::Arr(a) => {
                out.push('[');
                for (i, x) in a.iter().enumerate() {
                    if i > 0 {
                        out.push(',');
                    }
                    x.write(out);
                }
                out.push(']');
            }
            J::Obj(m) => {
                out.push('{');
                for (i, (k, v)) in m.iter().enumerate() {
                    if i > 0 {
                        out.push(',');
                    }
                    write_str(k, out);
                    out.push(':');
                    v.write(out);
                }
                out.push('}');
            }
        }
    }
}

impl From<&str> for J {
    fn from(s: &str) -> J {
        J::Str(s.to_string())
    }
}
impl From<String> for J {
    fn from(s: String) -> J {
        J::Str(s)
    }
}
impl From<i64> for J {
    fn from(i: i64) -> J {
        J::Int(i)
    }
}
impl From<usize> for J {
    fn from(i: usize) -> J {
        J::Int(i as i64)
    }
}
impl From<u64> for J {
    fn from(i: u64) -> J {
        J::Int(i as i64)
    }
}
impl From<bool> for J {
    fn from(b: bool) -> J {
        J::Bool(b)
    }
}

fn write_str(s: &str, out: &mut String) {
    out.push('"');
    for c in s.chars() {
        match c {
            '"' => out.push_str("\\\""),
            '\\' => out.push_str("\\\\"),
            '\n' => out.push_str("\\n"),
            '\r' => out.push_str("\\r"),
            '\t' => out.push_str("\\t"),
            c if (c as u32) < 0x20 => {
                let _ = write!(out, "\\u{:04x}", c as u32);
            }
            c => out.push(c),
        }
    }
    out.push('"');
}

pub fn parse(s: &str) -> Result<J, String> {
    let b = s.as_bytes();
    let mut p = 0usize;
    let v = parse_val(b, &mut p)?;
    skip_ws(b, &mut p);
    if p != b.len() {
        return Err(format!("trailing data at {p}"));
    }
    Ok(v)
}

fn skip_ws(b: &[u8], p: &mut usize) {
    while *p < b.len() && (b[*p] as char).is_ascii_whitespace() {
        *p += 1;
    }
}

fn parse_val(b: &[u8], p: &mut usize) -> Result<J, String> {
    skip_ws(b, p);
    if *p >= b.len() {
        return Err("eof".into());
    }
    match b[*p] {
        b'{' => {
            *p += 1;
            let mut m = BTreeMap::new();
            skip_ws(b, p);
            if *p < b.len() && b[*p] == b'}' {
                *p += 1;
                return Ok(J::Obj(m));
            }
            loop {
                skip_ws(b, p);
                let k = match parse_val(b, p)? {
                    J::Str(s) => s,
                    _ => return Err("key".into()),
                };
                skip_ws(b, p);
                if *p >= b.len() || b[*p] != b':' {
                    return Err("colon".into());
                }
                *p += 1;
                let v = parse_val(b, p)?;
                m.insert(k, v);
                skip_ws(b, p);
                if *p < b.len() && b[*p] == b',' {
                    *p += 1;
                    continue;
                }
                if *p < b.len() && b[*p] == b'}' {
                    *p += 1;
                    return Ok(J::Obj(m));
                }
                return Err("obj".into());
            }
        }
        b'[' => {
            *p += 1;
            let mut a = Vec::new();
            skip_ws(b, p);
            if *p < b.len() && b[*p] == b']' {
                *p += 1;
                return Ok(J::Arr(a));
            }
            loop {
                a.push(parse_val(b, p)?);
                skip_ws(b, p);
                if *p < b.len() && b[*p] == b',' {
                    *p += 1;
                    continue;
                }
                if *p < b.len() && b[*p] == b']' {
                    *p += 1;
                    return Ok(J::Arr(a));
                }
                return Err("arr".into());
            }
        }
        b'"' => {
            *p += 1;
            let mut out = Vec::new();
            while *p < b.len() && b[*p] != b'"' {
                if b[*p] == b'\\' {
                    *p += 1;
                    match b.get(*p) {
                        Some(b'n') => out.push(b'\n'),
                        Some(b'r') => out.push(b'\r'),
                        Some(b't') => out.push(b'\t'),
                        Some(b'b') => out.push(8),
                        Some(b'f') => out.push(12),
                        Some(b'u') => {
                            let h = std::str::from_utf8(&b[*p + 1..*p + 5]).map_err(|e| e.to_string())?;
                            let c = u32::from_str_radix(h, 16).map_err(|e| e.to_string())?;
                            let ch = char::from_u32(c).unwrap_or('?');
                            let mut buf = [0u8; 4];
                            out.extend_from_slice(ch.encode_utf8(&mut buf).as_bytes());
                            *p += 4;
                        }
                        Some(c) => out.push(*c),
                        None => return Err("esc".into()),
                    }
                    *p += 1;
                } else {
                    out.push(b[*p]);
                    *p += 1;
                }
            }
            *p += 1;
            Ok(J::Str(String::from_utf8_lossy(&out).into_owned()))
        }
        b't' => {
            *p += 4;
            Ok(J::Bool(true))
        }
        b'f' => {
            *p += 5;
            Ok(J::Bool(false))
        }
        b'n' => {
            *p += 4;
            Ok(J::Null)
        }
        _ => {
            let st = *p;
            while *p < b.len() && matches!(b[*p], b'-' | b'+' | b'.' | b'e' | b'E' | b'0'..=b'9') {
                *p += 1;
            }
            let t = std::str::from_utf8(&b[st..*p]).unwrap();
            if let Ok(i) = t.parse::<i64>() {
                Ok(J::Int(i))
            } else {
                t.parse::<f64>().map(J::Num).map_err(|e| format!("num {t}: {e}"))
            }
        }
    }
}
