//! Thin wrappers around the real compiler stages (public API only), each run under catch_unwind.

use printer::Print;
use std::cell::RefCell;
use std::panic::{self, AssertUnwindSafe};

thread_local! {
    static LAST_PANIC: RefCell<Option<String>> = const { RefCell::new(None) };
}

pub fn install_quiet_panic_hook() {
    panic::set_hook(Box::new(|info| {
        let loc = info.location().map(|l| format!("{}:{}", l.file(), l.line())).unwrap_or_default();
        let msg = if let Some(s) = info.payload().downcast_ref::<&str>() {
            (*s).to_string()
        } else if let Some(s) = info.payload().downcast_ref::<String>() {
            s.clone()
        } else {
            "<non-string panic>".to_string()
        };
        LAST_PANIC.with(|p| *p.borrow_mut() = Some(format!("{msg} @ {loc}")));
    }));
}

#[derive(Debug, Clone)]
pub enum StageErr {
    Parse(String),
    Type(String),
    Panic { stage: &'static str, msg: String },
}

impl StageErr {
    pub fn is_capacity(&self) -> bool {
        match self {
            StageErr::Panic { msg, .. } => {
                msg.starts_with("Out of temporaries")
                    || msg.starts_with("Out of registers")
                    || msg.starts_with("too many arguments for main")
                    || msg.contains("function calls can use")
            }
            _ => false,
        }
    }
    pub fn is_rv_unimplemented(&self) -> bool {
        matches!(self, StageErr::Panic { msg, .. } if msg.contains("not implemented") || msg.contains("not yet implemented"))
    }
    pub fn describe(&self) -> String {
        match self {
            StageErr::Parse(m) => format!("parse error: {m}"),
            StageErr::Type(m) => format!("type error: {m}"),
            StageErr::Panic { stage, msg } => format!("panic in {stage}: {msg}"),
        }
    }
}

pub fn guarded<T>(stage: &'static str, f: impl FnOnce() -> T) -> Result<T, StageErr> {
    LAST_PANIC.with(|p| *p.borrow_mut() = None);
    match panic::catch_unwind(AssertUnwindSafe(f)) {
        Ok(v) => Ok(v),
        Err(_) => {
            let msg = LAST_PANIC.with(|p| p.borrow_mut().take()).unwrap_or_else(|| "<no message>".into());
            Err(StageErr::Panic { stage, msg })
        }
    }
}

pub fn parse(src: &str) -> Result<fun::syntax::program::Program, StageErr> {
    match guarded("parse", || fun::parser::parse_module(src))? {
        Ok(p) => Ok(p),
        Err(e) => Err(StageErr::Parse(format!("{e:?}").chars().take(300).collect())),
    }
}

pub fn check(p: fun::syntax::program::Program) -> Result<fun::syntax::program::CheckedProgram, StageErr> {
    match guarded("check", || p.check())? {
        Ok(p) => Ok(p),
        Err(e) => Err(StageErr::Type(format!("{e:?}").chars().take(300).collect())),
    }
}

pub fn to_core(p: fun::syntax::program::CheckedProgram) -> Result<core_lang::syntax::Prog, StageErr> {
    guarded("fun2core", || fun2core::program::compile_prog(p))
}

pub fn focus(p: core_lang::syntax::Prog) -> Result<core_lang::syntax::program::FsProg, StageErr> {
    guarded("focus", || p.focus())
}

pub fn shrink(p: core_lang::syntax::program::FsProg) -> Result<axcut::syntax::Prog, StageErr> {
    guarded("shrink", || core2axcut::program::shrink_prog(p))
}

pub fn linearize(mut p: axcut::syntax::Prog) -> Result<axcut::syntax::Prog, StageErr> {
    guarded("linearize", move || {
        p.linearize();
        p
    })
}

pub struct Asm {
    pub text: String,
    pub nargs: usize,
}

pub fn x86(p: axcut::syntax::Prog) -> Result<Asm, StageErr> {
    guarded("codegen-x86_64", || {
        let code = axcut2backend::coder::compile::<axcut2x86_64::Backend, _, _, _>(p);
        let nargs = code.number_of_arguments;
        let text = axcut2x86_64::into_routine::into_x86_64_routine(code).print_to_string(None);
        Asm { text, nargs }
    })
}

pub fn a64(p: axcut::syntax::Prog) -> Result<Asm, StageErr> {
    guarded("codegen-aarch64", || {
        let code = axcut2backend::coder::compile::<axcut2aarch64::Backend, _, _, _>(p);
        let nargs = code.number_of_arguments;
        let text = axcut2aarch64::into_routine::into_aarch64_routine(code).print_to_string(None);
        Asm { text, nargs }
    })
}

pub fn rv64(p: axcut::syntax::Prog) -> Result<Asm, StageErr> {
    guarded("codegen-rv64", || {
        let code = axcut2backend::coder::compile::<axcut2rv64::Backend, _, _, _>(p);
        let nargs = code.number_of_arguments;
        let text = axcut2rv64::into_routine::into_rv64_routine(code);
        Asm { text, nargs }
    })
}

/// All intermediate programs of one source text.
pub struct Stages {
    pub checked: fun::syntax::program::CheckedProgram,
    pub core: core_lang::syntax::Prog,
    pub focused: core_lang::syntax::program::FsProg,
    pub shrunk: axcut::syntax::Prog,
    pub linear: axcut::syntax::Prog,
}

pub fn front(src: &str) -> Result<fun::syntax::program::CheckedProgram, StageErr> {
    check(parse(src)?)
}

pub fn all_stages(src: &str) -> Result<Stages, StageErr> {
    let checked = front(src)?;
    let core = to_core(checked.clone())?;
    let focused = focus(core.clone())?;
    let shrunk = shrink(focused.clone())?;
    let linear = linearize(shrunk.clone())?;
    Ok(Stages { checked, core, focused, shrunk, linear })
}
