//! Instrumented emulators for the emitted assembly text: sanitizers for generated code.
//!
//! Common parts: memory with definedness (poison) bits and bounds, statement-boundary markers,
//! the heap-shape / reference-count monitor (C09) and the footprint monitor (C10).

pub mod a64;
pub mod rv;
pub mod x86;

use crate::trace::{Outcome, PrintEv, Undefined};
use std::collections::{BTreeMap, HashMap};

pub const HEAP_BASE: u64 = 0x1000_0000;
pub const STACK_TOP: u64 = 0x7fff_0000;
pub const STACK_SIZE: u64 = 1 << 20;
pub const CODE_BASE: u64 = 0x4000_0000;
pub const BLOCK: u64 = 64;

#[derive(Clone, Debug, PartialEq, Eq)]
pub enum Chi {
    Ext,
    Prd,
    Cns,
}

#[derive(Clone, Debug)]
pub struct Marker {
    pub kind: String,
    pub stored: usize,
    pub env: Vec<(String, Chi)>,
}

/// `@verif stmt=<kind> n=<k> env=[name:chi,...]` (after the comment leader)
pub fn parse_marker(text: &str) -> Option<Marker> {
    let t = text.trim();
    let t = t.strip_prefix("@verif ")?;
    let mut kind = String::new();
    let mut stored = 0usize;
    let mut env = Vec::new();
    for part in t.split(' ') {
        if let Some(k) = part.strip_prefix("stmt=") {
            kind = k.to_string();
        } else if let Some(n) = part.strip_prefix("n=") {
            stored = n.parse().ok()?;
        } else if let Some(e) = part.strip_prefix("env=[") {
            let e = e.strip_suffix(']')?;
            if !e.is_empty() {
                for b in e.split(',') {
                    let (name, chi) = b.rsplit_once(':')?;
                    let chi = match chi {
                        "ext" => Chi::Ext,
                        "prd" => Chi::Prd,
                        "cns" => Chi::Cns,
                        _ => return None,
                    };
                    env.push((name.to_string(), chi));
                }
            }
        }
    }
    Some(Marker { kind, stored, env })
}

#[derive(Clone, Debug, PartialEq, Eq)]
pub enum ViolationKind {
    /// use of an undefined value (branch condition, address, print argument, result, divisor)
    Poison,
    /// memory access outside heap, own stack frame
    OutOfBounds,
    /// indirect jump not to an instruction start / fall off the end
    WildJump,
    /// calling convention (alignment, callee-saved registers, stack pointer at return)
    Abi,
    /// heap shape / reference count invariant at a statement boundary
    Heap,
    /// footprint invariant
    Footprint,
    /// instruction that has no encoding
    Unencodable,
}

#[derive(Clone, Debug)]
pub struct Violation {
    pub kind: ViolationKind,
    pub msg: String,
    pub pc_line: usize,
}

#[derive(Clone, Debug, Default)]
pub struct EmuStats {
    pub instructions: u64,
    pub markers: u64,
    pub heap_walks: u64,
    pub blocks_walked: u64,
    pub ext_calls: u64,
    /// print statements whose whole context was compared with the context at the next marker
    pub print_contexts_compared: u64,
    pub print_context_variables_compared: u64,
    pub spill_accesses: u64,
    pub heap_accesses: u64,
    pub max_frontier_blocks: u64,
    pub max_reachable_blocks: u64,
    pub max_shared_count: u64,
    pub shared_blocks_seen: u64,
    pub deferred_seen: u64,
    pub reused_from_free_list: u64,
    pub multi_block_objects: u64,
    pub marker_kinds: BTreeMap<String, u64>,
    pub max_env: usize,
    /// first variable location found changed between the marker of a print statement and the next
    /// marker (a print leaves the context as it is); not a violation by itself, see C13
    pub print_changed: Option<String>,
}

pub struct EmuResult {
    pub outcome: Outcome,
    pub violation: Option<Violation>,
    pub stats: EmuStats,
    pub snapshot: Option<Snapshot2>,
}

#[derive(Clone)]
pub struct EmuConfig {
    pub heap_bytes: u64,
    pub max_instructions: u64,
    /// run the heap monitor at every k-th marker (0 = never)
    pub heap_check_every: u64,
    pub footprint_check: bool,
    /// false: the heap walk does not enforce the shape/count invariant (C09's business) and only
    /// feeds the footprint monitor (C10), so that a leak is seen as growth instead of ending the run
    pub enforce_shape: bool,
    /// stop when control reaches this label and return a snapshot of the machine (fragments, C11)
    pub stop_label: Option<String>,
    /// initial contents of the heap (words from the heap base)
    pub init_heap: Option<Vec<u64>>,
}

impl Default for EmuConfig {
    fn default() -> Self {
        EmuConfig { heap_bytes: 1 << 20, max_instructions: 3_000_000, heap_check_every: 1, footprint_check: true, enforce_shape: true, stop_label: None, init_heap: None }
    }
}

/// machine state at `stop_label`: registers by the emulator's own hardware index
pub struct Snapshot2 {
    pub regs: Vec<(u64, bool)>,
    pub sp: u64,
    pub stack_base: u64,
    pub stack_words: Vec<u64>,
    pub stack_def: Vec<bool>,
    pub heap_words: Vec<u64>,
}

impl Snapshot2 {
    pub fn stack_at(&self, addr: u64) -> Option<(u64, bool)> {
        if addr < self.stack_base || addr % 8 != 0 {
            return None;
        }
        let i = ((addr - self.stack_base) / 8) as usize;
        self.stack_words.get(i).map(|w| (*w, self.stack_def[i]))
    }
}

/// Word-addressed memory region with definedness bits.
pub struct Region {
    pub base: u64,
    pub words: Vec<u64>,
    pub def: Vec<bool>,
}

impl Region {
    pub fn new(base: u64, bytes: u64, defined: bool) -> Region {
        let n = (bytes / 8) as usize;
        Region { base, words: vec![0; n], def: vec![defined; n] }
    }
    pub fn contains(&self, addr: u64) -> bool {
        addr >= self.base && addr < self.base + 8 * self.words.len() as u64
    }
    pub fn idx(&self, addr: u64) -> usize {
        ((addr - self.base) / 8) as usize
    }
    pub fn end(&self) -> u64 {
        self.base + 8 * self.words.len() as u64
    }
}

/// What the heap monitor needs to see of a machine at a statement boundary.
pub struct HeapView<'a> {
    pub heap: &'a Region,
    pub heap_reg: (u64, bool),
    pub free_reg: (u64, bool),
    /// (value, defined) of the first temporary of each environment position
    pub roots: Vec<(u64, bool)>,
    /// highest heap address written so far (0 if none)
    pub max_written: u64,
}

#[derive(Default)]
pub struct HeapMonitor {
    /// None = enforce; Some(false) = footprint only
    pub enforce_shape: Option<bool>,
    pub prev: Option<Snapshot>,
    pub max_frontier: u64,
    pub max_reachable: u64,
    pub largest_object_blocks: u64,
}

#[derive(Clone, Debug)]
pub struct Snapshot {
    pub frontier_blocks: u64,
    pub l: u64,
    pub d: u64,
    pub r: u64,
    pub w: u64,
    pub stored: usize,
    pub kind: String,
}

pub fn blocks_for(n: usize) -> u64 {
    if n == 0 {
        0
    } else if n <= 3 {
        1
    } else {
        1 + ((n - 3) as u64).div_ceil(2)
    }
}

impl HeapMonitor {
    /// Full walk: partition of the blocks below the frontier and exact reference counts.
    pub fn check(&mut self, v: &HeapView, m: &Marker, stats: &mut EmuStats, footprint: bool) -> Result<(), (ViolationKind, String)> {
        if stats.blocks_walked > 40_000_000 {
            // monitor work budget of one run exhausted: inconclusive, never a verdict
            return Err((ViolationKind::OutOfBounds, "monitor budget".into()));
        }
        if self.enforce_shape == Some(false) {
            return self.check_footprint_only(v, m, stats);
        }
        self.check_full(v, m, stats, footprint)
    }

    /// best-effort walk that never reports shape problems: frontier, list lengths, reachable blocks
    fn check_footprint_only(&mut self, v: &HeapView, m: &Marker, stats: &mut EmuStats) -> Result<(), (ViolationKind, String)> {
        let base = v.heap.base;
        let end = v.heap.end();
        let word = |addr: u64| -> u64 { v.heap.words[v.heap.idx(addr)] };
        let valid_block = |p: u64| -> bool { p >= base && p + BLOCK <= end && (p - base) % BLOCK == 0 };
        let nb = ((end - base) / BLOCK) as usize;
        // deferred chain
        let mut d = 0u64;
        let mut p = v.free_reg.0;
        let mut steps = 0;
        let frontier = loop {
            if !v.free_reg.1 || !valid_block(p) || steps > nb {
                if p >= end && p < end + (1 << 28) {
                    return Err((ViolationKind::OutOfBounds, "heap exhausted".into()));
                }
                return Ok(());
            }
            let next = word(p);
            if next == 0 {
                break p;
            }
            d += 1;
            p = next;
            steps += 1;
        };
        let mut l = 0u64;
        let mut p = v.heap_reg.0;
        let mut steps = 0;
        while v.heap_reg.1 && valid_block(p) && steps <= nb {
            l += 1;
            let next = word(p);
            if next == 0 {
                break;
            }
            p = next;
            steps += 1;
        }
        let mut seen = std::collections::HashSet::new();
        let mut stack: Vec<u64> = Vec::new();
        for (i, (val, def)) in v.roots.iter().enumerate() {
            if m.env[i].1 != Chi::Ext && *def && *val != 0 && valid_block(*val) && *val < frontier && seen.insert(*val) {
                stack.push(*val);
            }
        }
        while let Some(b) = stack.pop() {
            for f in 0..3u64 {
                let c = word(b + 16 + 16 * f);
                if c != 0 && valid_block(c) && c < frontier && seen.insert(c) {
                    stack.push(c);
                }
            }
        }
        let nblocks = (frontier - base) / BLOCK;
        stats.heap_walks += 1;
        stats.blocks_walked += nblocks;
        stats.max_frontier_blocks = stats.max_frontier_blocks.max(nblocks);
        stats.max_reachable_blocks = stats.max_reachable_blocks.max(seen.len() as u64);
        let snap = Snapshot { frontier_blocks: nblocks, l, d, r: seen.len() as u64, w: 0, stored: m.stored, kind: m.kind.clone() };
        self.largest_object_blocks = self.largest_object_blocks.max(blocks_for(m.stored));
        self.footprint(snap)
    }

    fn footprint(&mut self, snap: Snapshot) -> Result<(), (ViolationKind, String)> {
        if let Some(prev) = &self.prev {
            let grew = snap.frontier_blocks.saturating_sub(prev.frontier_blocks);
            let k = blocks_for(prev.stored);
            let supply = prev.l + prev.d;
            let allowed = (k + 1).saturating_sub(supply);
            if grew > allowed {
                return Err((
                    ViolationKind::Footprint,
                    format!(
                        "statement '{}' storing {} variables ({} blocks) took {} fresh blocks from the unused heap although {} reusable and {} deferred blocks were available (allowed {})",
                        prev.kind, prev.stored, k, grew, prev.l, prev.d, allowed
                    ),
                ));
            }
            if prev.frontier_blocks > snap.frontier_blocks {
                return Err((ViolationKind::Footprint, "allocation frontier moved backwards".into()));
            }
        }
        self.max_frontier = self.max_frontier.max(snap.frontier_blocks);
        self.max_reachable = self.max_reachable.max(snap.r);
        let c = 2 + self.largest_object_blocks;
        if self.max_frontier > self.max_reachable + c {
            return Err((
                ViolationKind::Footprint,
                format!("frontier at {} blocks exceeds peak reachable {} by more than {}", self.max_frontier, self.max_reachable, c),
            ));
        }
        self.prev = Some(snap);
        Ok(())
    }

    fn check_full(&mut self, v: &HeapView, m: &Marker, stats: &mut EmuStats, footprint: bool) -> Result<(), (ViolationKind, String)> {
        use ViolationKind::Heap;
        let base = v.heap.base;
        let end = v.heap.end();
        let word = |addr: u64| -> u64 { v.heap.words[v.heap.idx(addr)] };
        let valid_block = |p: u64| -> bool { p >= base && p + BLOCK <= end && (p - base) % BLOCK == 0 };
        if !v.heap_reg.1 || !v.free_reg.1 {
            return Err((Heap, "heap or free register undefined at a statement boundary".into()));
        }
        // deferred chain and frontier
        let mut d_blocks: Vec<u64> = Vec::new();
        let mut seen: HashMap<u64, u8> = HashMap::new(); // 1=L 2=D 3=R 4=W
        let mut p = v.free_reg.0;
        let frontier;
        let mut guard = 0u64;
        loop {
            if !valid_block(p) {
                if p >= end && p < end + (1 << 32) {
                    // frontier ran past the configured heap: not enough heap
                    return Err((ViolationKind::OutOfBounds, "heap exhausted".into()));
                }
                return Err((Heap, format!("free-list pointer {p:#x} is not a block address")));
            }
            let next = word(p);
            if next == 0 {
                frontier = p;
                break;
            }
            if seen.insert(p, 2).is_some() {
                return Err((Heap, format!("deferred free list is cyclic at {p:#x}")));
            }
            d_blocks.push(p);
            p = next;
            guard += 1;
            if guard > (end - base) / BLOCK + 1 {
                return Err((Heap, "deferred free list does not terminate".into()));
            }
        }
        // nothing at or above the frontier was ever written
        if v.max_written >= frontier {
            return Err((Heap, format!("memory at or above the allocation frontier {frontier:#x} was written (highest write {:#x})", v.max_written)));
        }
        for d in &d_blocks {
            if *d >= frontier {
                return Err((Heap, format!("deferred block {d:#x} lies above the frontier")));
            }
        }
        // immediately reusable chain
        let mut l_count = 0u64;
        let mut p = v.heap_reg.0;
        loop {
            if !valid_block(p) || p >= frontier {
                return Err((Heap, format!("reuse-list pointer {p:#x} is not a block below the frontier")));
            }
            if let Some(prev) = seen.insert(p, 1) {
                return Err((Heap, format!("block {p:#x} is on the reuse list and also {}", if prev == 1 { "again on the reuse list (cycle / double release)" } else { "on the deferred list" })));
            }
            l_count += 1;
            let next = word(p);
            if next == 0 {
                break;
            }
            p = next;
        }
        // reachable from roots
        let mut refs: HashMap<u64, u64> = HashMap::new();
        let mut r_blocks: Vec<u64> = Vec::new();
        let mut stack: Vec<u64> = Vec::new();
        let child_ptr = |b: u64, what: &str| -> Result<(), (ViolationKind, String)> {
            if !valid_block(b) || b >= frontier {
                return Err((Heap, format!("{what} {b:#x} is not a block address below the frontier")));
            }
            Ok(())
        };
        for (i, (val, def)) in v.roots.iter().enumerate() {
            if m.env[i].1 == Chi::Ext {
                continue;
            }
            if !*def {
                return Err((ViolationKind::Poison, format!("block pointer of live variable {} is undefined", m.env[i].0)));
            }
            if *val == 0 {
                continue;
            }
            child_ptr(*val, &format!("block pointer of variable {}", m.env[i].0))?;
            match seen.get(val) {
                Some(1) => return Err((Heap, format!("variable {} points to a released block {val:#x} (use after release)", m.env[i].0))),
                Some(2) => return Err((Heap, format!("variable {} points to a block on the deferred list {val:#x} (dangling)", m.env[i].0))),
                _ => {}
            }
            *refs.entry(*val).or_insert(0) += 1;
            if seen.insert(*val, 3).is_none() {
                r_blocks.push(*val);
                stack.push(*val);
            }
        }
        let mut multi = 0u64;
        while let Some(b) = stack.pop() {
            for f in 0..3u64 {
                let c = word(b + 16 + 16 * f);
                if c == 0 {
                    continue;
                }
                child_ptr(c, &format!("field {f} of reachable block {b:#x}"))?;
                match seen.get(&c) {
                    Some(1) => return Err((Heap, format!("field {f} of reachable block {b:#x} points to a released block {c:#x}"))),
                    Some(2) => return Err((Heap, format!("field {f} of reachable block {b:#x} points to a deferred block {c:#x}"))),
                    _ => {}
                }
                *refs.entry(c).or_insert(0) += 1;
                if seen.insert(c, 3).is_none() {
                    r_blocks.push(c);
                    stack.push(c);
                }
            }
        }
        // waiting beneath deferred blocks
        let mut w_blocks: Vec<u64> = Vec::new();
        let mut stack: Vec<u64> = d_blocks.clone();
        while let Some(b) = stack.pop() {
            for f in 0..3u64 {
                let c = word(b + 16 + 16 * f);
                if c == 0 {
                    continue;
                }
                child_ptr(c, &format!("field {f} of deferred/waiting block {b:#x}"))?;
                match seen.get(&c) {
                    Some(1) => return Err((Heap, format!("field {f} of deferred/waiting block {b:#x} points to a released block {c:#x}"))),
                    Some(2) => return Err((Heap, format!("field {f} of deferred/waiting block {b:#x} points to a deferred block {c:#x} (released twice)"))),
                    _ => {}
                }
                *refs.entry(c).or_insert(0) += 1;
                if seen.insert(c, 4).is_none() {
                    w_blocks.push(c);
                    stack.push(c);
                }
            }
        }
        // partition: every block below the frontier is accounted for
        let nblocks = (frontier - base) / BLOCK;
        if (seen.len() as u64) != nblocks {
            // find a lost block for the message
            let mut lost = None;
            for i in 0..nblocks {
                let b = base + i * BLOCK;
                if !seen.contains_key(&b) {
                    lost = Some(b);
                    break;
                }
            }
            return Err((Heap, format!("block {:#x} below the frontier is neither reachable, reusable, deferred nor waiting (lost block); {} of {} blocks accounted for", lost.unwrap_or(0), seen.len(), nblocks)));
        }
        // exact counts
        let mut max_cnt = 0u64;
        let mut shared = 0u64;
        for b in r_blocks.iter().chain(w_blocks.iter()) {
            let cnt = word(*b);
            let r = *refs.get(b).unwrap_or(&0);
            if cnt.wrapping_add(1) != r {
                return Err((Heap, format!("block {b:#x}: stored count {cnt} but {r} references exist (expected count {})", r as i64 - 1)));
            }
            if cnt > 0 {
                shared += 1;
            }
            max_cnt = max_cnt.max(cnt);
            // multi-block object: link field in use
            if word(*b + 48) != 0 {
                multi += 1;
            }
        }
        stats.heap_walks += 1;
        stats.blocks_walked += nblocks;
        stats.max_shared_count = stats.max_shared_count.max(max_cnt);
        stats.shared_blocks_seen += shared;
        stats.deferred_seen += d_blocks.len() as u64;
        stats.multi_block_objects = stats.multi_block_objects.max(multi);
        stats.max_frontier_blocks = stats.max_frontier_blocks.max(nblocks);
        stats.max_reachable_blocks = stats.max_reachable_blocks.max(r_blocks.len() as u64);

        let snap = Snapshot {
            frontier_blocks: nblocks,
            l: l_count,
            d: d_blocks.len() as u64,
            r: r_blocks.len() as u64,
            w: w_blocks.len() as u64,
            stored: m.stored,
            kind: m.kind.clone(),
        };
        self.largest_object_blocks = self.largest_object_blocks.max(blocks_for(m.stored));
        if footprint {
            return self.footprint(snap);
        }
        self.prev = Some(snap);
        Ok(())
    }
}

pub fn end_to_outcome(prints: Vec<PrintEv>, end: Result<i64, Undefined>) -> Outcome {
    Outcome { prints, end }
}
