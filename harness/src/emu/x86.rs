//! x86-64 subset emulator for the text printed by `axcut2x86_64` (NASM syntax), with poison
//! tracking, bounds checks, an ABI monitor at external calls / the final return and the
//! statement-boundary heap monitor.

use super::*;
use axcut2backend::config::TemporaryNumber;
use axcut2backend::utils::Utils;
use axcut2x86_64::config::{Temporary, stack_offset};

#[derive(Clone, Debug)]
pub enum Opnd {
    Reg(u8),
    Mem(u8, i64),
    Imm(i64),
}

#[derive(Clone, Copy, Debug, PartialEq, Eq)]
pub enum Cc {
    E,
    Ne,
    L,
    Le,
    G,
    Ge,
    // condition codes the backend does not emit today; given their architectural meaning so that a
    // change that starts to emit them is judged, not refused
    A,
    Ae,
    B,
    Be,
    S,
    Ns,
}

#[derive(Clone, Debug)]
pub enum Ins {
    Mov(Opnd, Opnd),
    Add(Opnd, Opnd),
    Sub(Opnd, Opnd),
    Imul(Opnd, Opnd),
    Cmp(Opnd, Opnd),
    Idiv(Opnd),
    Cqo,
    JmpReg(u8),
    Jmp(String, bool),
    Jcc(Cc, String),
    Lea(u8, String),
    /// lea dst, [base + index*scale + disp]
    LeaAddr(u8, u8, Option<(u8, u8)>, i64),
    Push(u8),
    Pop(u8),
    Call(String),
    Ret,
    Marker(Marker),
}

pub struct Program {
    pub ins: Vec<Ins>,
    pub line: Vec<usize>,
    pub addr: Vec<u64>,
    pub labels: HashMap<String, usize>,
    pub addr_to_idx: HashMap<u64, usize>,
    pub entry: usize,
}

const REGS: [&str; 16] = ["rax", "rcx", "rdx", "rbx", "rsp", "rbp", "rsi", "rdi", "r8", "r9", "r10", "r11", "r12", "r13", "r14", "r15"];
pub const RAX: u8 = 0;
pub const RCX: u8 = 1;
pub const RDX: u8 = 2;
pub const RBX: u8 = 3;
pub const RSP: u8 = 4;
pub const RBP: u8 = 5;
pub const RSI: u8 = 6;
pub const RDI: u8 = 7;

fn reg(s: &str) -> Option<u8> {
    REGS.iter().position(|r| *r == s).map(|i| i as u8)
}

/// backend register number (axcut2x86_64::config::Register) -> hardware register index used here
pub fn backend_reg(n: usize) -> u8 {
    match n {
        0 => RSP,
        1 => RCX,
        2 => RBX,
        3 => RBP,
        4 => RAX,
        5 => RDX,
        6 => RSI,
        7 => RDI,
        n => n as u8,
    }
}

fn parse_opnd(s: &str) -> Result<Opnd, String> {
    let s = s.trim();
    let s = s.strip_prefix("qword ").unwrap_or(s).trim();
    if let Some(inner) = s.strip_prefix('[') {
        let inner = inner.strip_suffix(']').ok_or_else(|| format!("bad memory operand {s}"))?;
        let (b, o) = inner.split_once('+').ok_or_else(|| format!("bad memory operand {s}"))?;
        let base = reg(b.trim()).ok_or_else(|| format!("bad base register in {s}"))?;
        let off: i64 = o.trim().parse().map_err(|_| format!("bad offset in {s}"))?;
        return Ok(Opnd::Mem(base, off));
    }
    if let Some(r) = reg(s) {
        return Ok(Opnd::Reg(r));
    }
    s.parse::<i64>().map(Opnd::Imm).map_err(|_| format!("bad operand {s}"))
}

pub fn parse(text: &str) -> Result<Program, String> {
    let mut ins = Vec::new();
    let mut line = Vec::new();
    let mut labels: HashMap<String, usize> = HashMap::new();
    for (ln, raw) in text.lines().enumerate() {
        let t = raw.trim();
        if t.is_empty() {
            continue;
        }
        if let Some(c) = t.strip_prefix(';') {
            if let Some(m) = parse_marker(c) {
                ins.push(Ins::Marker(m));
                line.push(ln + 1);
            } else if c.trim_start().starts_with("@verif") {
                return Err(format!("line {}: malformed marker {t}", ln + 1));
            }
            continue;
        }
        if t.starts_with("section ") || t.starts_with("extern ") || t.starts_with("global ") {
            continue;
        }
        if let Some(l) = t.strip_suffix(':') {
            if l.contains(' ') {
                return Err(format!("line {}: bad label {t}", ln + 1));
            }
            if labels.insert(l.to_string(), ins.len()).is_some() {
                return Err(format!("line {}: duplicate label {l}", ln + 1));
            }
            continue;
        }
        let (mn, rest) = match t.split_once(' ') {
            Some((a, b)) => (a, b.trim()),
            None => (t, ""),
        };
        let two = |rest: &str| -> Result<(Opnd, Opnd), String> {
            // split at the comma that is not inside brackets
            let mut depth = 0;
            let mut split = None;
            for (i, ch) in rest.char_indices() {
                match ch {
                    '[' => depth += 1,
                    ']' => depth -= 1,
                    ',' if depth == 0 => {
                        split = Some(i);
                        break;
                    }
                    _ => {}
                }
            }
            let i = split.ok_or_else(|| format!("expected two operands: {rest}"))?;
            Ok((parse_opnd(&rest[..i])?, parse_opnd(&rest[i + 1..])?))
        };
        let i = match mn {
            "mov" => {
                let (a, b) = two(rest)?;
                Ins::Mov(a, b)
            }
            "add" => {
                let (a, b) = two(rest)?;
                Ins::Add(a, b)
            }
            "sub" => {
                let (a, b) = two(rest)?;
                Ins::Sub(a, b)
            }
            "imul" => {
                let (a, b) = two(rest)?;
                Ins::Imul(a, b)
            }
            "cmp" => {
                let (a, b) = two(rest)?;
                Ins::Cmp(a, b)
            }
            "idiv" => Ins::Idiv(parse_opnd(rest)?),
            "cqo" => Ins::Cqo,
            "jmp" => {
                if let Some(l) = rest.strip_prefix("near ") {
                    Ins::Jmp(l.trim().to_string(), true)
                } else if let Some(r) = reg(rest) {
                    Ins::JmpReg(r)
                } else {
                    Ins::Jmp(rest.to_string(), false)
                }
            }
            "je" => Ins::Jcc(Cc::E, rest.to_string()),
            "jne" => Ins::Jcc(Cc::Ne, rest.to_string()),
            "jl" => Ins::Jcc(Cc::L, rest.to_string()),
            "jle" => Ins::Jcc(Cc::Le, rest.to_string()),
            "jg" => Ins::Jcc(Cc::G, rest.to_string()),
            "jge" | "jnl" => Ins::Jcc(Cc::Ge, rest.to_string()),
            "jz" => Ins::Jcc(Cc::E, rest.to_string()),
            "jnz" => Ins::Jcc(Cc::Ne, rest.to_string()),
            "jnge" => Ins::Jcc(Cc::L, rest.to_string()),
            "jng" => Ins::Jcc(Cc::Le, rest.to_string()),
            "jnle" => Ins::Jcc(Cc::G, rest.to_string()),
            "ja" | "jnbe" => Ins::Jcc(Cc::A, rest.to_string()),
            "jae" | "jnb" | "jnc" => Ins::Jcc(Cc::Ae, rest.to_string()),
            "jb" | "jnae" | "jc" => Ins::Jcc(Cc::B, rest.to_string()),
            "jbe" | "jna" => Ins::Jcc(Cc::Be, rest.to_string()),
            "js" => Ins::Jcc(Cc::S, rest.to_string()),
            "jns" => Ins::Jcc(Cc::Ns, rest.to_string()),
            "lea" => {
                let (r, m) = rest.split_once(',').ok_or("lea operands")?;
                let r = reg(r.trim()).ok_or("lea register")?;
                let m = m.trim();
                if let Some(l) = m.strip_prefix("[rel ").and_then(|x| x.strip_suffix(']')) {
                    Ins::Lea(r, l.trim().to_string())
                } else {
                    // [base + index*scale + disp], every part but the base optional
                    let inner = m.strip_prefix('[').and_then(|x| x.strip_suffix(']')).ok_or_else(|| format!("lea form {m}"))?;
                    let mut base = None;
                    let mut index = None;
                    let mut disp = 0i64;
                    for (k, part) in inner.replace('-', "+-").split('+').enumerate() {
                        let part = part.trim();
                        if part.is_empty() {
                            continue;
                        }
                        if let Some((x, sc)) = part.split_once('*') {
                            let x = reg(x.trim()).ok_or_else(|| format!("lea form {m}"))?;
                            let sc: u8 = sc.trim().parse().map_err(|_| format!("lea form {m}"))?;
                            if index.is_some() || ![1, 2, 4, 8].contains(&sc) {
                                return Err(format!("line {}: lea form {m}", ln + 1));
                            }
                            index = Some((x, sc));
                        } else if let Some(x) = reg(part) {
                            if k == 0 || base.is_none() {
                                base = Some(x);
                            } else if index.is_none() {
                                index = Some((x, 1));
                            } else {
                                return Err(format!("line {}: lea form {m}", ln + 1));
                            }
                        } else {
                            disp = disp.wrapping_add(part.replace(' ', "").parse::<i64>().map_err(|_| format!("lea form {m}"))?);
                        }
                    }
                    Ins::LeaAddr(r, base.ok_or_else(|| format!("lea form {m}"))?, index, disp)
                }
            }
            "push" => Ins::Push(reg(rest).ok_or("push register")?),
            "pop" => Ins::Pop(reg(rest).ok_or("pop register")?),
            "call" => Ins::Call(rest.to_string()),
            "ret" => Ins::Ret,
            _ => return Err(format!("line {}: unknown instruction form: {t}", ln + 1)),
        };
        ins.push(i);
        line.push(ln + 1);
    }
    // addresses: near jumps are 5 bytes, everything else 3, markers 0
    let mut addr = Vec::with_capacity(ins.len());
    let mut a = CODE_BASE;
    let mut addr_to_idx = HashMap::new();
    for (i, x) in ins.iter().enumerate() {
        addr.push(a);
        match x {
            Ins::Marker(_) => {}
            Ins::Jmp(_, true) => {
                addr_to_idx.entry(a).or_insert(i);
                a += 5;
            }
            _ => {
                addr_to_idx.entry(a).or_insert(i);
                a += 3;
            }
        }
    }
    // an address maps to the first instruction at it, which may be preceded by zero-size markers
    for (i, x) in ins.iter().enumerate().rev() {
        if let Ins::Marker(_) = x {
            if i + 1 < ins.len() {
                addr_to_idx.insert(addr[i], i);
            }
        }
    }
    let entry = *labels.get("asm_main").ok_or("no asm_main label")?;
    Ok(Program { ins, line, addr, labels, addr_to_idx, entry })
}

pub struct Machine<'p> {
    pub prog: &'p Program,
    pub regs: [u64; 16],
    pub rdef: [bool; 16],
    pub heap: Region,
    pub stack: Region,
    pub flags: Option<(i64, i64)>,
    pub flags_def: bool,
    pub flags_origin: &'static str,
    /// only the zero and sign flags of `flags` are modelled (set by add/imul: result against 0)
    pub flags_partial: bool,
    pub max_written: u64,
    /// heap and free registers at the marker of a print statement: they must be the same at the next
    /// statement boundary (a print allocates nothing; the registers are caller-saved)
    pub print_guard: Option<((u64, bool), (u64, bool))>,
    /// environment and contents of all variable locations at the marker of a print statement
    pub print_vars: Option<(Vec<(String, super::Chi)>, Vec<(u64, bool)>, Vec<(u64, bool)>)>,
    pub prints: Vec<PrintEv>,
    pub stats: EmuStats,
    pub entry_sp: u64,
}

enum Stop {
    Done(i64),
    Undef(Undefined),
    Viol(ViolationKind, String),
}

const RET_SENTINEL: u64 = 0x0000_dead_0000_beef;

/// where an undefined value came from (the property checks route events by this phrase)
fn origin(v: u64) -> &'static str {
    if v >> 48 == 0xDEAD { " (value clobbered by an external call)" } else { " (never initialised)" }
}

impl<'p> Machine<'p> {
    fn viol<T>(kind: ViolationKind, msg: String) -> Result<T, Stop> {
        Err(Stop::Viol(kind, msg))
    }

    fn mem_check(&mut self, addr: u64, write: bool) -> Result<(bool, usize), Stop> {
        if addr % 8 != 0 {
            return Self::viol(ViolationKind::OutOfBounds, format!("unaligned access at {addr:#x}"));
        }
        if self.heap.contains(addr) {
            self.stats.heap_accesses += 1;
            if write {
                self.max_written = self.max_written.max(addr);
            }
            return Ok((true, self.heap.idx(addr)));
        }
        if self.stack.contains(addr) {
            let sp = self.regs[RSP as usize];
            if addr < sp {
                return Self::viol(ViolationKind::OutOfBounds, format!("access below the stack pointer at {addr:#x} (rsp={sp:#x})"));
            }
            if addr > self.entry_sp || (addr == self.entry_sp && write) {
                return Self::viol(ViolationKind::OutOfBounds, format!("access to the caller's frame at {addr:#x}"));
            }
            self.stats.spill_accesses += 1;
            return Ok((false, self.stack.idx(addr)));
        }
        if addr >= self.heap.end() && addr < self.heap.end() + (1 << 28) {
            if std::env::var("EMU_DEBUG").is_ok() {
                eprintln!("heap exhausted: access at {addr:#x}");
            }
            return Err(Stop::Undef(Undefined::Heap));
        }
        Self::viol(ViolationKind::OutOfBounds, format!("access outside heap and stack at {addr:#x}"))
    }

    fn addr_of(&mut self, base: u8, off: i64) -> Result<u64, Stop> {
        if !self.rdef[base as usize] {
            return Self::viol(ViolationKind::Poison, format!("address computed from undefined register {}{}", REGS[base as usize], origin(self.regs[base as usize])));
        }
        Ok(self.regs[base as usize].wrapping_add(off as u64))
    }

    fn read(&mut self, o: &Opnd) -> Result<(u64, bool), Stop> {
        match o {
            Opnd::Reg(r) => Ok((self.regs[*r as usize], self.rdef[*r as usize])),
            Opnd::Imm(i) => Ok((*i as u64, true)),
            Opnd::Mem(b, off) => {
                let a = self.addr_of(*b, *off)?;
                let (h, i) = self.mem_check(a, false)?;
                if h { Ok((self.heap.words[i], self.heap.def[i])) } else { Ok((self.stack.words[i], self.stack.def[i])) }
            }
        }
    }

    fn write(&mut self, o: &Opnd, v: u64, d: bool) -> Result<(), Stop> {
        match o {
            Opnd::Reg(r) => {
                self.regs[*r as usize] = v;
                self.rdef[*r as usize] = d;
                Ok(())
            }
            Opnd::Imm(_) => Self::viol(ViolationKind::Unencodable, "immediate as destination".into()),
            Opnd::Mem(b, off) => {
                let a = self.addr_of(*b, *off)?;
                let (h, i) = self.mem_check(a, true)?;
                if h {
                    self.heap.words[i] = v;
                    self.heap.def[i] = d;
                } else {
                    self.stack.words[i] = v;
                    self.stack.def[i] = d;
                }
                Ok(())
            }
        }
    }

    fn push(&mut self, v: u64, d: bool) -> Result<(), Stop> {
        let sp = self.regs[RSP as usize].wrapping_sub(8);
        if !self.stack.contains(sp) {
            return Self::viol(ViolationKind::OutOfBounds, "stack overflow".into());
        }
        self.regs[RSP as usize] = sp;
        let i = self.stack.idx(sp);
        self.stack.words[i] = v;
        self.stack.def[i] = d;
        Ok(())
    }

    fn pop(&mut self) -> Result<(u64, bool), Stop> {
        let sp = self.regs[RSP as usize];
        if !self.stack.contains(sp) || sp > self.entry_sp {
            return Self::viol(ViolationKind::OutOfBounds, format!("pop beyond the frame at {sp:#x}"));
        }
        let i = self.stack.idx(sp);
        self.regs[RSP as usize] = sp + 8;
        Ok((self.stack.words[i], self.stack.def[i]))
    }

    fn jump_label(&self, l: &str) -> Result<usize, Stop> {
        self.prog.labels.get(l).copied().ok_or_else(|| Stop::Viol(ViolationKind::WildJump, format!("jump to undefined label {l}")))
    }

    pub fn check_encodable(i: &Ins) -> Option<String> {
        match i {
            Ins::Mov(Opnd::Mem(..), Opnd::Imm(v)) | Ins::Add(Opnd::Mem(..), Opnd::Imm(v)) | Ins::Cmp(Opnd::Mem(..), Opnd::Imm(v)) | Ins::Sub(Opnd::Mem(..), Opnd::Imm(v)) => {
                if i32::try_from(*v).is_err() {
                    return Some(format!("64-bit immediate {v} with a memory destination"));
                }
                None
            }
            Ins::Add(Opnd::Reg(_), Opnd::Imm(v)) | Ins::Sub(Opnd::Reg(_), Opnd::Imm(v)) | Ins::Cmp(Opnd::Reg(_), Opnd::Imm(v)) => {
                if i32::try_from(*v).is_err() {
                    return Some(format!("64-bit immediate {v} in an ALU instruction"));
                }
                None
            }
            Ins::Imul(Opnd::Mem(..), _) => Some("imul with a memory destination".into()),
            Ins::Mov(Opnd::Mem(..), Opnd::Mem(..)) | Ins::Add(Opnd::Mem(..), Opnd::Mem(..)) | Ins::Sub(Opnd::Mem(..), Opnd::Mem(..)) | Ins::Cmp(Opnd::Mem(..), Opnd::Mem(..)) => {
                Some("two memory operands".into())
            }
            _ => None,
        }
    }

    fn roots_for(&self, n: usize) -> Vec<(u64, bool)> {
        self.locs_for(n, false)
    }

    /// contents of the first (`snd` false) or second temporary of the variables at positions 0..n
    fn locs_for(&self, n: usize, snd: bool) -> Vec<(u64, bool)> {
        // position -> temporary by the backend's own map
        let mut out = Vec::with_capacity(n);
        for pos in 0..n {
            // a context with `pos` bindings: fresh_temporary(Fst) is the first temporary of position pos
            let ctx = dummy_context(pos);
            let t = <axcut2x86_64::Backend as Utils<Temporary>>::fresh_temporary(if snd { TemporaryNumber::Snd } else { TemporaryNumber::Fst }, &ctx);
            match t {
                Temporary::Register(r) => {
                    let h = backend_reg(r.0) as usize;
                    out.push((self.regs[h], self.rdef[h]));
                }
                Temporary::Spill(s) => {
                    let a = self.regs[RSP as usize].wrapping_add(stack_offset(s).val as u64);
                    if self.stack.contains(a) {
                        let i = self.stack.idx(a);
                        out.push((self.stack.words[i], self.stack.def[i]));
                    } else {
                        out.push((0, false));
                    }
                }
            }
        }
        out
    }
}

pub fn dummy_context(n: usize) -> axcut::syntax::TypingContext {
    axcut::syntax::TypingContext {
        bindings: (0..n)
            .map(|i| axcut::syntax::ContextBinding {
                var: axcut::syntax::Identifier { name: "v".into(), id: i + 1 },
                chi: axcut::syntax::Chirality::Ext,
                ty: axcut::syntax::Ty::I64,
            })
            .collect(),
    }
}

pub fn run(prog: &Program, args: &[i64], cfg: &EmuConfig) -> EmuResult {
    let mut m = Machine {
        prog,
        regs: [0; 16],
        rdef: [false; 16],
        heap: Region::new(HEAP_BASE, cfg.heap_bytes, true),
        stack: Region::new(STACK_TOP - STACK_SIZE, STACK_SIZE, false),
        flags: None,
        flags_def: true,
        flags_origin: "",
        flags_partial: false,
        max_written: 0,
        print_guard: None,
        print_vars: None,
        prints: Vec::new(),
        stats: EmuStats::default(),
        entry_sp: 0,
    };
    // entry state: rsp points at the return address, 8 mod 16
    let sp = STACK_TOP - 256 - 8;
    m.entry_sp = sp;
    m.regs[RSP as usize] = sp;
    m.rdef[RSP as usize] = true;
    let i = m.stack.idx(sp);
    m.stack.words[i] = RET_SENTINEL;
    m.stack.def[i] = true;
    m.regs[RDI as usize] = HEAP_BASE;
    m.rdef[RDI as usize] = true;
    let arg_regs = [RSI, RDX, RCX, 8u8, 9u8];
    for (k, a) in args.iter().enumerate() {
        if k < arg_regs.len() {
            m.regs[arg_regs[k] as usize] = *a as u64;
            m.rdef[arg_regs[k] as usize] = true;
        }
    }
    // callee-saved registers hold the caller's values: must be preserved but never used
    let callee_saved = [RBX, RBP, 12u8, 13u8, 14u8, 15u8];
    for (k, r) in callee_saved.iter().enumerate() {
        m.regs[*r as usize] = 0xCA11_EE00_0000_0000 + k as u64;
        m.rdef[*r as usize] = false;
    }
    if let Some(h) = &cfg.init_heap {
        for (i, w) in h.iter().enumerate() {
            if i < m.heap.words.len() {
                m.heap.words[i] = *w;
            }
        }
    }
    let stop_idx = cfg.stop_label.as_ref().and_then(|l| prog.labels.get(l).copied());
    let mut snapshot = None;
    let mut monitor = HeapMonitor { enforce_shape: Some(cfg.enforce_shape), ..Default::default() };
    let mut pc = prog.entry;
    let mut violation = None;
    let end: Result<i64, Undefined> = loop {
        if stop_idx == Some(pc) {
            snapshot = Some(Snapshot2 {
                regs: (0..16).map(|r| (m.regs[r], m.rdef[r])).collect(),
                sp: m.regs[RSP as usize],
                stack_base: m.stack.base,
                stack_words: m.stack.words.clone(),
                stack_def: m.stack.def.clone(),
                heap_words: m.heap.words.clone(),
            });
            break Ok(0);
        }
        if pc >= prog.ins.len() {
            violation = Some(Violation { kind: ViolationKind::WildJump, msg: "execution fell off the end of the code".into(), pc_line: 0 });
            break Err(Undefined::Internal("fell off"));
        }
        m.stats.instructions += 1;
        if m.stats.instructions > cfg.max_instructions {
            break Err(Undefined::Fuel);
        }
        let ins = &prog.ins[pc];
        let step: Result<usize, Stop> = (|| {
            if let Some(why) = Machine::check_encodable(ins) {
                return Machine::viol(ViolationKind::Unencodable, why);
            }
            match ins {
                Ins::Marker(mk) => {
                    m.stats.markers += 1;
                    *m.stats.marker_kinds.entry(mk.kind.clone()).or_insert(0) += 1;
                    m.stats.max_env = m.stats.max_env.max(mk.env.len());
                    {
                        let now = ((m.regs[RBX as usize], m.rdef[RBX as usize]), (m.regs[RBP as usize], m.rdef[RBP as usize]));
                        if let Some(before) = m.print_guard.take() {
                            if before != now && before.0.1 && before.1.1 {
                                return Machine::viol(
                                    ViolationKind::Abi,
                                    format!("heap/free registers changed across a print statement: ({:#x}, {:#x}) before, ({:#x}, {:#x}) after (they must survive the external call)", before.0.0, before.1.0, now.0.0, now.1.0),
                                );
                            }
                        }
                        if mk.kind == "print" {
                            m.print_guard = Some(now);
                        }
                        // a print statement leaves the context as it is: every variable is found
                        // in the same place with the same contents at the next marker
                        if let Some((env, fst, snd)) = m.print_vars.take() {
                            if m.stats.print_changed.is_none() && env.iter().map(|e| &e.0).eq(mk.env.iter().map(|e| &e.0)) {
                                let (f2, s2) = (m.locs_for(env.len(), false), m.locs_for(env.len(), true));
                                m.stats.print_contexts_compared += 1;
                                m.stats.print_context_variables_compared += env.len() as u64;
                                for (i, (name, chi)) in env.iter().enumerate() {
                                    let ext = matches!(chi, super::Chi::Ext);
                                    if (snd[i].1 && snd[i] != s2[i]) || (!ext && fst[i].1 && fst[i] != f2[i]) {
                                        m.stats.print_changed = Some(format!(
                                            "variable {name} (position {i} of {}) held ({:#x}, {:#x}) before the print statement and ({:#x}, {:#x}) after it",
                                            env.len(), fst[i].0, snd[i].0, f2[i].0, s2[i].0
                                        ));
                                        break;
                                    }
                                }
                            }
                        }
                        if mk.kind == "print" {
                            m.print_vars = Some((mk.env.clone(), m.locs_for(mk.env.len(), false), m.locs_for(mk.env.len(), true)));
                        }
                    }
                    if cfg.heap_check_every > 0 && m.stats.markers % cfg.heap_check_every == 0 {
                        let roots = m.roots_for(mk.env.len());
                        let view = HeapView {
                            heap: &m.heap,
                            heap_reg: (m.regs[RBX as usize], m.rdef[RBX as usize]),
                            free_reg: (m.regs[RBP as usize], m.rdef[RBP as usize]),
                            roots,
                            max_written: m.max_written,
                        };
                        let fp = cfg.footprint_check && cfg.heap_check_every == 1;
                        let mut st = std::mem::take(&mut m.stats);
                        let r = monitor.check(&view, mk, &mut st, fp);
                        m.stats = st;
                        if let Err((k, msg)) = r {
                            if msg == "monitor budget" {
                                return Err(Stop::Undef(Undefined::Fuel));
                            }
                            if msg == "heap exhausted" {
                                if std::env::var("EMU_DEBUG").is_ok() {
                                    eprintln!("heap exhausted in monitor: free={:#x}", m.regs[RBP as usize]);
                                }
                                return Err(Stop::Undef(Undefined::Heap));
                            }
                            return Machine::viol(k, format!("at marker stmt={} env={}: {msg}", mk.kind, mk.env.len()));
                        }
                    }
                    Ok(pc + 1)
                }
                Ins::Mov(d, s) => {
                    let (v, df) = m.read(s)?;
                    m.write(d, v, df)?;
                    Ok(pc + 1)
                }
                Ins::Add(d, s) | Ins::Sub(d, s) | Ins::Imul(d, s) => {
                    let (a, da) = m.read(d)?;
                    let (b, db) = m.read(s)?;
                    let r = match ins {
                        Ins::Add(..) => a.wrapping_add(b),
                        Ins::Sub(..) => a.wrapping_sub(b),
                        _ => (a as i64).wrapping_mul(b as i64) as u64,
                    };
                    m.write(d, r, da && db)?;
                    // sub sets the flags exactly as cmp does; of add and imul only the zero and
                    // sign flags are modelled
                    if matches!(ins, Ins::Sub(..)) {
                        m.flags = Some((a as i64, b as i64));
                        m.flags_partial = false;
                    } else {
                        m.flags = Some((r as i64, 0));
                        m.flags_partial = true;
                    }
                    m.flags_def = da && db;
                    m.flags_origin = if !da { origin(a) } else if !db { origin(b) } else { "" };
                    Ok(pc + 1)
                }
                Ins::Cmp(a, b) => {
                    let (x, dx) = m.read(a)?;
                    let (y, dy) = m.read(b)?;
                    m.flags = Some((x as i64, y as i64));
                    m.flags_partial = false;
                    m.flags_def = dx && dy;
                    m.flags_origin = if !dx { origin(x) } else if !dy { origin(y) } else { "" };
                    Ok(pc + 1)
                }
                Ins::Cqo => {
                    let (a, d) = (m.regs[RAX as usize], m.rdef[RAX as usize]);
                    m.regs[RDX as usize] = if (a as i64) < 0 { u64::MAX } else { 0 };
                    m.rdef[RDX as usize] = d;
                    Ok(pc + 1)
                }
                Ins::Idiv(o) => {
                    let (dv, dd) = m.read(o)?;
                    if !dd {
                        return Machine::viol(ViolationKind::Poison, format!("division by an undefined value{}", origin(dv)));
                    }
                    let lo = m.regs[RAX as usize];
                    let hi = m.regs[RDX as usize];
                    let dividend = ((hi as u128) << 64 | lo as u128) as i128;
                    let divisor = dv as i64 as i128;
                    if divisor == 0 {
                        return Err(Stop::Undef(Undefined::Arith));
                    }
                    let q = dividend / divisor;
                    let r = dividend % divisor;
                    if q > i64::MAX as i128 || q < i64::MIN as i128 {
                        return Err(Stop::Undef(Undefined::Arith));
                    }
                    let d = m.rdef[RAX as usize] && m.rdef[RDX as usize];
                    m.regs[RAX as usize] = q as i64 as u64;
                    m.regs[RDX as usize] = r as i64 as u64;
                    m.rdef[RAX as usize] = d;
                    m.rdef[RDX as usize] = d;
                    m.flags = None;
                    Ok(pc + 1)
                }
                Ins::JmpReg(r) => {
                    if !m.rdef[*r as usize] {
                        return Machine::viol(ViolationKind::Poison, format!("indirect jump through undefined register {}{}", REGS[*r as usize], origin(m.regs[*r as usize])));
                    }
                    let a = m.regs[*r as usize];
                    match prog.addr_to_idx.get(&a) {
                        Some(i) => Ok(*i),
                        None => Machine::viol(ViolationKind::WildJump, format!("indirect jump to {a:#x}, which is not the start of an instruction")),
                    }
                }
                Ins::Jmp(l, _) => m.jump_label(l),
                Ins::Jcc(cc, l) => {
                    let Some((a, b)) = m.flags else {
                        return Machine::viol(ViolationKind::Poison, "conditional jump without a preceding comparison".into());
                    };
                    if !m.flags_def {
                        return Machine::viol(ViolationKind::Poison, format!("conditional jump depends on an undefined value{}", m.flags_origin));
                    }
                    if m.flags_partial && !matches!(cc, Cc::E | Cc::Ne | Cc::S | Cc::Ns) {
                        // overflow / carry of an addition or multiplication: outside this model
                        return Err(Stop::Undef(Undefined::Fuel));
                    }
                    let t = match cc {
                        Cc::E => a == b,
                        Cc::Ne => a != b,
                        Cc::L => a < b,
                        Cc::Le => a <= b,
                        Cc::G => a > b,
                        Cc::Ge => a >= b,
                        Cc::A => (a as u64) > (b as u64),
                        Cc::Ae => (a as u64) >= (b as u64),
                        Cc::B => (a as u64) < (b as u64),
                        Cc::Be => (a as u64) <= (b as u64),
                        Cc::S => a.wrapping_sub(b) < 0,
                        Cc::Ns => a.wrapping_sub(b) >= 0,
                    };
                    if t { m.jump_label(l) } else { Ok(pc + 1) }
                }
                Ins::LeaAddr(r, b, x, disp) => {
                    let mut v = m.regs[*b as usize].wrapping_add(*disp as u64);
                    let mut d = m.rdef[*b as usize];
                    if let Some((x, sc)) = x {
                        v = v.wrapping_add(m.regs[*x as usize].wrapping_mul(*sc as u64));
                        d = d && m.rdef[*x as usize];
                    }
                    m.regs[*r as usize] = v;
                    m.rdef[*r as usize] = d;
                    Ok(pc + 1)
                }
                Ins::Lea(r, l) => {
                    let i = m.jump_label(l)?;
                    m.regs[*r as usize] = prog.addr[i];
                    m.rdef[*r as usize] = true;
                    Ok(pc + 1)
                }
                Ins::Push(r) => {
                    let (v, d) = (m.regs[*r as usize], m.rdef[*r as usize]);
                    m.push(v, d)?;
                    Ok(pc + 1)
                }
                Ins::Pop(r) => {
                    let (v, d) = m.pop()?;
                    m.regs[*r as usize] = v;
                    m.rdef[*r as usize] = d;
                    Ok(pc + 1)
                }
                Ins::Call(f) => {
                    let newline = match f.as_str() {
                        "print_i64" => false,
                        "println_i64" => true,
                        _ => return Machine::viol(ViolationKind::WildJump, format!("call of unknown external {f}")),
                    };
                    m.stats.ext_calls += 1;
                    let sp = m.regs[RSP as usize];
                    if sp % 16 != 0 {
                        return Machine::viol(ViolationKind::Abi, format!("stack pointer {sp:#x} not 16-byte aligned at call {f}"));
                    }
                    if !m.rdef[RDI as usize] {
                        return Machine::viol(ViolationKind::Poison, format!("argument of {f} is undefined{}", origin(m.regs[RDI as usize])));
                    }
                    m.prints.push(PrintEv { value: m.regs[RDI as usize] as i64, newline });
                    if m.prints.len() > 100_000 {
                        return Err(Stop::Undef(Undefined::Fuel));
                    }
                    // everything a real callee may clobber becomes undefined
                    for r in [RAX, RCX, RDX, RSI, RDI, 8, 9, 10, 11] {
                        m.regs[r as usize] = 0xDEAD_0000_0000_0000 | r as u64;
                        m.rdef[r as usize] = false;
                    }
                    m.flags = None;
                    let lo = m.stack.base;
                    let mut a = lo;
                    while a < sp {
                        let i = m.stack.idx(a);
                        if m.stack.def[i] || m.stack.words[i] != 0 {
                            m.stack.words[i] = 0xDEAD_5555_0000_0000;
                            m.stack.def[i] = false;
                        }
                        a += 8;
                    }
                    Ok(pc + 1)
                }
                Ins::Ret => {
                    let (v, d) = m.pop()?;
                    if m.regs[RSP as usize] != m.entry_sp + 8 {
                        return Machine::viol(ViolationKind::Abi, format!("stack pointer at return is {:#x}, expected {:#x}", m.regs[RSP as usize] - 8, m.entry_sp));
                    }
                    if v != RET_SENTINEL || !d {
                        return Machine::viol(ViolationKind::Abi, "return address was overwritten".into());
                    }
                    for (k, r) in [RBX, RBP, 12u8, 13u8, 14u8, 15u8].iter().enumerate() {
                        if m.regs[*r as usize] != 0xCA11_EE00_0000_0000 + k as u64 {
                            return Machine::viol(ViolationKind::Abi, format!("callee-saved register {} not restored", REGS[*r as usize]));
                        }
                    }
                    if !m.rdef[RAX as usize] {
                        return Machine::viol(ViolationKind::Poison, format!("result register undefined at return{}", origin(m.regs[RAX as usize])));
                    }
                    Err(Stop::Done(m.regs[RAX as usize] as i64))
                }
            }
        })();
        match step {
            Ok(n) => pc = n,
            Err(Stop::Done(v)) => break Ok(v),
            Err(Stop::Undef(u)) => break Err(u),
            Err(Stop::Viol(kind, msg)) => {
                violation = Some(Violation { kind, msg, pc_line: prog.line[pc] });
                break Err(Undefined::Internal("sanitizer"));
            }
        }
    };
    let mut stats = m.stats;
    stats.max_frontier_blocks = stats.max_frontier_blocks.max(monitor.max_frontier);
    EmuResult { outcome: Outcome { prints: m.prints, end }, violation, stats, snapshot }
}
