//! RV64 emulator for the pseudo-assembly text printed by `axcut2rv64` (`Code`'s `Display` in
//! `axcut2rv64/src/code.rs`, wrapped by `into_rv64_routine`), with poison tracking, bounds
//! checks and the statement-boundary heap monitor.
//!
//! Reading of the text (fixed by the property C08): `LW`/`SW` are 64-bit accesses, execution
//! starts at the first label, the heap register holds `HEAP_BASE` and the free register
//! `HEAP_BASE + BLOCK`, argument `i` of main is in the second temporary of environment position
//! `i`, and the run ends when control reaches `cleanup`.  There is no stack, no spill area and no
//! external call in this backend.
//!
//! Forms accepted (exactly what `Code::fmt` can print):
//!   `ADD Xd Xa Xb` | `ADD Xd Xa imm` (ADDI) | `SUB|MUL|DIV|REM Xd Xa Xb`
//!   `JAL Xd label` | `JALR Xd Xa imm` | `LA Xd label` | `LI Xd imm` | `MV Xd Xa`
//!   `LW Xd imm Xbase` | `SW Xs imm Xbase`
//!   `BEQ|BNE|BLT|BLE|BGT|BGE Xa Xb label`
//!   `label:` (preceded by an empty line) | `// comment` (`// @verif ...` = marker)

use super::x86::dummy_context;
use super::*;
use axcut2backend::config::{Config, TemporaryNumber};
use axcut2backend::utils::Utils;
use axcut2rv64::config::{Immediate, REGISTER_NUM, RESERVED, Register};

/// the label the code of an `exit` statement jumps to
const EXIT_LABEL: &str = "cleanup";
/// bytes per instruction (`Config::jump_length(1)`)
const INS_BYTES: u64 = 4;

#[derive(Clone, Copy, Debug, PartialEq, Eq)]
pub enum Alu {
    Add,
    Sub,
    Mul,
    Div,
    Rem,
    // instructions of RV64IM that the backend does not emit today but a change might: they are
    // given their architectural meaning so that such a change is judged, not refused
    Addw,
    Subw,
    Mulw,
    Divw,
    Remw,
    Divu,
    Remu,
    And,
    Or,
    Xor,
    Slt,
    Sltu,
    Sll,
    Srl,
    Sra,
}

#[derive(Clone, Copy, Debug, PartialEq, Eq)]
pub enum Cond {
    Eq,
    Ne,
    Lt,
    Le,
    Gt,
    Ge,
}

#[derive(Clone, Debug)]
pub enum Ins {
    /// rd, rs1, rs2
    Op(Alu, u8, u8, u8),
    /// rd, rs1, imm (printed as `ADD` with an immediate third operand)
    Addi(u8, u8, i64),
    /// rd, label
    Jal(u8, String),
    /// rd, rs1, imm
    Jalr(u8, u8, i64),
    /// rd, label
    La(u8, String),
    /// rd, imm
    Li(u8, i64),
    /// rd, rs
    Mv(u8, u8),
    /// rd, base, offset  (text order: `LW rd offset base`)
    Lw(u8, u8, i64),
    /// source, base, offset  (text order: `SW source offset base`)
    Sw(u8, u8, i64),
    /// condition, rs1, rs2, label
    Br(Cond, u8, u8, String),
    Marker(Marker),
}

pub struct Program {
    pub ins: Vec<Ins>,
    pub line: Vec<usize>,
    pub addr: Vec<u64>,
    /// address one past the last instruction (address of labels at the very end)
    pub end_addr: u64,
    pub labels: HashMap<String, usize>,
    pub addr_to_idx: HashMap<u64, usize>,
    pub entry: usize,
    /// index the label `cleanup` stands for, if the text defines it
    pub exit: Option<usize>,
}

pub fn hw(r: Register) -> u8 {
    r.0 as u8
}

fn reg_zero() -> u8 {
    hw(axcut2rv64::config::ZERO)
}
fn reg_heap() -> u8 {
    hw(<axcut2rv64::Backend as Config<Register, Immediate>>::heap())
}
fn reg_free() -> u8 {
    hw(<axcut2rv64::Backend as Config<Register, Immediate>>::free())
}
fn reg_return() -> u8 {
    hw(<axcut2rv64::Backend as Config<Register, Immediate>>::return1())
}

/// Register of environment position `pos` by the backend's own map; `None` if the backend has no
/// register for that position (it asserts "Out of registers" there).
fn position_reg(number: TemporaryNumber, pos: usize) -> Option<u8> {
    if 2 * pos + 1 + RESERVED >= REGISTER_NUM {
        return None;
    }
    let ctx = dummy_context(pos);
    let r = <axcut2rv64::Backend as Utils<Register>>::fresh_temporary(number, &ctx);
    Some(hw(r))
}

fn reg(s: &str) -> Result<u8, String> {
    let n = s.strip_prefix('X').ok_or_else(|| format!("bad register {s}"))?;
    if n.is_empty() || !n.bytes().all(|b| b.is_ascii_digit()) || (n.len() > 1 && n.starts_with('0')) {
        return Err(format!("bad register {s}"));
    }
    let k: usize = n.parse().map_err(|_| format!("bad register {s}"))?;
    if k >= REGISTER_NUM {
        return Err(format!("bad register {s}"));
    }
    Ok(k as u8)
}

fn imm(s: &str) -> Result<i64, String> {
    s.parse::<i64>().map_err(|_| format!("bad immediate {s}"))
}

fn label_name(s: &str) -> Result<String, String> {
    if s.is_empty() || s.contains(char::is_whitespace) || s.ends_with(':') || s.starts_with("//") {
        return Err(format!("bad label {s}"));
    }
    Ok(s.to_string())
}

pub fn parse(text: &str) -> Result<Program, String> {
    let mut ins = Vec::new();
    let mut line = Vec::new();
    let mut labels: HashMap<String, usize> = HashMap::new();
    let mut entry: Option<usize> = None;
    for (ln, raw) in text.lines().enumerate() {
        let t = raw.trim();
        if t.is_empty() {
            continue;
        }
        if let Some(c) = t.strip_prefix("//") {
            if let Some(m) = parse_marker(c) {
                ins.push(Ins::Marker(m));
                line.push(ln + 1);
            } else if c.trim_start().starts_with("@verif") {
                return Err(format!("line {}: malformed marker {t}", ln + 1));
            }
            continue;
        }
        if let Some(l) = t.strip_suffix(':') {
            if l.is_empty() || l.contains(' ') {
                return Err(format!("line {}: bad label {t}", ln + 1));
            }
            if labels.insert(l.to_string(), ins.len()).is_some() {
                return Err(format!("line {}: duplicate label {l}", ln + 1));
            }
            if entry.is_none() {
                entry = Some(ins.len());
            }
            continue;
        }
        let unknown = || format!("line {}: unknown instruction form: {t}", ln + 1);
        let tok: Vec<&str> = t.split(' ').collect();
        if tok.iter().any(|x| x.is_empty()) {
            return Err(unknown());
        }
        let parsed: Result<Ins, String> = (|| {
            let want = |n: usize| -> Result<(), String> { if tok.len() == n + 1 { Ok(()) } else { Err(format!("expected {n} operands")) } };
            Ok(match tok[0] {
                "ADD" => {
                    want(3)?;
                    if tok[3].starts_with('X') {
                        Ins::Op(Alu::Add, reg(tok[1])?, reg(tok[2])?, reg(tok[3])?)
                    } else {
                        Ins::Addi(reg(tok[1])?, reg(tok[2])?, imm(tok[3])?)
                    }
                }
                "SUB" | "MUL" | "DIV" | "REM" | "ADDW" | "SUBW" | "MULW" | "DIVW" | "REMW" | "DIVU" | "REMU" | "AND" | "OR" | "XOR" | "SLT" | "SLTU" | "SLL" | "SRL" | "SRA" => {
                    want(3)?;
                    let op = match tok[0] {
                        "SUB" => Alu::Sub,
                        "MUL" => Alu::Mul,
                        "DIV" => Alu::Div,
                        "REM" => Alu::Rem,
                        "ADDW" => Alu::Addw,
                        "SUBW" => Alu::Subw,
                        "MULW" => Alu::Mulw,
                        "DIVW" => Alu::Divw,
                        "REMW" => Alu::Remw,
                        "DIVU" => Alu::Divu,
                        "REMU" => Alu::Remu,
                        "AND" => Alu::And,
                        "OR" => Alu::Or,
                        "XOR" => Alu::Xor,
                        "SLT" => Alu::Slt,
                        "SLTU" => Alu::Sltu,
                        "SLL" => Alu::Sll,
                        "SRL" => Alu::Srl,
                        _ => Alu::Sra,
                    };
                    Ins::Op(op, reg(tok[1])?, reg(tok[2])?, reg(tok[3])?)
                }
                "JAL" => {
                    want(2)?;
                    Ins::Jal(reg(tok[1])?, label_name(tok[2])?)
                }
                "JALR" => {
                    want(3)?;
                    Ins::Jalr(reg(tok[1])?, reg(tok[2])?, imm(tok[3])?)
                }
                "LA" => {
                    want(2)?;
                    Ins::La(reg(tok[1])?, label_name(tok[2])?)
                }
                "LI" => {
                    want(2)?;
                    Ins::Li(reg(tok[1])?, imm(tok[2])?)
                }
                "MV" => {
                    want(2)?;
                    Ins::Mv(reg(tok[1])?, reg(tok[2])?)
                }
                "LW" => {
                    want(3)?;
                    Ins::Lw(reg(tok[1])?, reg(tok[3])?, imm(tok[2])?)
                }
                "SW" => {
                    want(3)?;
                    Ins::Sw(reg(tok[1])?, reg(tok[3])?, imm(tok[2])?)
                }
                "BEQ" | "BNE" | "BLT" | "BLE" | "BGT" | "BGE" => {
                    want(3)?;
                    let c = match tok[0] {
                        "BEQ" => Cond::Eq,
                        "BNE" => Cond::Ne,
                        "BLT" => Cond::Lt,
                        "BLE" => Cond::Le,
                        "BGT" => Cond::Gt,
                        _ => Cond::Ge,
                    };
                    Ins::Br(c, reg(tok[1])?, reg(tok[2])?, label_name(tok[3])?)
                }
                _ => return Err("mnemonic".into()),
            })
        })();
        match parsed {
            Ok(i) => {
                ins.push(i);
                line.push(ln + 1);
            }
            Err(why) => return Err(format!("{} ({why})", unknown())),
        }
    }
    // addresses: every instruction is 4 bytes, markers 0
    let mut addr = Vec::with_capacity(ins.len());
    let mut a = CODE_BASE;
    let mut addr_to_idx = HashMap::new();
    for (i, x) in ins.iter().enumerate() {
        addr.push(a);
        // an address maps to the first item at it: the instruction itself or the first of the
        // zero-size markers preceding it
        addr_to_idx.entry(a).or_insert(i);
        if !matches!(x, Ins::Marker(_)) {
            a += INS_BYTES;
        }
    }
    let end_addr = a;
    // The end address (behind the last instruction) is the start of something only if a label
    // stands there (`cleanup:`); trailing markers alone are not instruction starts.
    let tail_start = ins.iter().rposition(|x| !matches!(x, Ins::Marker(_))).map_or(0, |i| i + 1);
    addr_to_idx.remove(&end_addr);
    if labels.values().any(|&i| i >= tail_start) {
        addr_to_idx.insert(end_addr, tail_start);
    }
    let entry = entry.ok_or("no label in the text: no entry point")?;
    let exit = labels.get(EXIT_LABEL).copied();
    Ok(Program { ins, line, addr, end_addr, labels, addr_to_idx, entry, exit })
}

pub struct Machine<'p> {
    pub prog: &'p Program,
    pub regs: [u64; 32],
    pub rdef: [bool; 32],
    pub heap: Region,
    pub max_written: u64,
    pub stats: EmuStats,
}

enum Stop {
    Done(i64),
    Undef(Undefined),
    Viol(ViolationKind, String),
}

impl<'p> Machine<'p> {
    fn viol<T>(kind: ViolationKind, msg: String) -> Result<T, Stop> {
        Err(Stop::Viol(kind, msg))
    }

    fn get(&self, r: u8) -> (u64, bool) {
        if r == reg_zero() { (0, true) } else { (self.regs[r as usize], self.rdef[r as usize]) }
    }

    fn set(&mut self, r: u8, v: u64, d: bool) {
        // writes to the zero register are discarded
        if r != reg_zero() {
            self.regs[r as usize] = v;
            self.rdef[r as usize] = d;
        }
    }

    fn mem_check(&mut self, addr: u64, write: bool) -> Result<usize, Stop> {
        if addr % 8 != 0 {
            return Self::viol(ViolationKind::OutOfBounds, format!("unaligned access at {addr:#x}"));
        }
        if self.heap.contains(addr) {
            self.stats.heap_accesses += 1;
            if write {
                self.max_written = self.max_written.max(addr);
            }
            return Ok(self.heap.idx(addr));
        }
        if addr >= self.heap.end() && addr < self.heap.end() + (1 << 28) {
            if std::env::var("EMU_DEBUG").is_ok() {
                eprintln!("heap exhausted: access at {addr:#x}");
            }
            return Err(Stop::Undef(Undefined::Heap));
        }
        Self::viol(ViolationKind::OutOfBounds, format!("access outside the heap at {addr:#x}"))
    }

    fn addr_of(&mut self, base: u8, off: i64) -> Result<u64, Stop> {
        let (b, d) = self.get(base);
        if !d {
            return Self::viol(ViolationKind::Poison, format!("address computed from undefined register X{base}"));
        }
        Ok(b.wrapping_add(off as u64))
    }

    /// Target of a direct jump / taken branch.
    fn jump_label(&self, l: &str) -> Result<usize, Stop> {
        match self.prog.labels.get(l) {
            Some(i) => Ok(*i),
            // the text does not define the exit point: jumping to it is reaching it
            None if l == EXIT_LABEL => self.exit(),
            None => Self::viol(ViolationKind::WildJump, format!("jump to undefined label {l}")),
        }
    }

    fn label_addr(&self, l: &str) -> Result<u64, Stop> {
        match self.prog.labels.get(l) {
            Some(i) => Ok(if *i < self.prog.addr.len() { self.prog.addr[*i] } else { self.prog.end_addr }),
            None => Self::viol(ViolationKind::WildJump, format!("address of undefined label {l}")),
        }
    }

    /// Control reached the exit point: the result is what the return register holds.
    fn exit<T>(&self) -> Result<T, Stop> {
        let (v, d) = self.get(reg_return());
        if !d {
            return Self::viol(ViolationKind::Poison, "result register undefined at the exit point".into());
        }
        Err(Stop::Done(v as i64))
    }

    fn roots_for(&self, n: usize) -> Vec<(u64, bool)> {
        // position -> first temporary by the backend's own map
        (0..n)
            .map(|pos| match position_reg(TemporaryNumber::Fst, pos) {
                Some(r) => self.get(r),
                None => (0, false),
            })
            .collect()
    }
}

fn alu(op: Alu, a: u64, b: u64) -> u64 {
    let (x, y) = (a as i64, b as i64);
    match op {
        Alu::Add => a.wrapping_add(b),
        Alu::Sub => a.wrapping_sub(b),
        Alu::Mul => x.wrapping_mul(y) as u64,
        // RISC-V M extension: no traps; x/0 = -1, x%0 = x, MIN/-1 = MIN, MIN%-1 = 0
        Alu::Div => {
            if y == 0 {
                u64::MAX
            } else if x == i64::MIN && y == -1 {
                i64::MIN as u64
            } else {
                (x / y) as u64
            }
        }
        Alu::Rem => {
            if y == 0 {
                a
            } else if x == i64::MIN && y == -1 {
                0
            } else {
                (x % y) as u64
            }
        }
        // word forms: operate on the low 32 bits, sign-extend the 32-bit result
        Alu::Addw => (a as i32).wrapping_add(b as i32) as i64 as u64,
        Alu::Subw => (a as i32).wrapping_sub(b as i32) as i64 as u64,
        Alu::Mulw => (a as i32).wrapping_mul(b as i32) as i64 as u64,
        Alu::Divw => {
            let (p, q) = (a as i32, b as i32);
            (if q == 0 { -1i32 } else if p == i32::MIN && q == -1 { i32::MIN } else { p / q }) as i64 as u64
        }
        Alu::Remw => {
            let (p, q) = (a as i32, b as i32);
            (if q == 0 { p } else if p == i32::MIN && q == -1 { 0 } else { p % q }) as i64 as u64
        }
        Alu::Divu => if b == 0 { u64::MAX } else { a / b },
        Alu::Remu => if b == 0 { a } else { a % b },
        Alu::And => a & b,
        Alu::Or => a | b,
        Alu::Xor => a ^ b,
        Alu::Slt => (x < y) as u64,
        Alu::Sltu => (a < b) as u64,
        Alu::Sll => a << (b & 63),
        Alu::Srl => a >> (b & 63),
        Alu::Sra => (x >> (b & 63)) as u64,
    }
}

fn cond(c: Cond, a: u64, b: u64) -> bool {
    let (x, y) = (a as i64, b as i64);
    match c {
        Cond::Eq => x == y,
        Cond::Ne => x != y,
        Cond::Lt => x < y,
        Cond::Le => x <= y,
        Cond::Gt => x > y,
        Cond::Ge => x >= y,
    }
}

pub fn run(prog: &Program, args: &[i64], cfg: &EmuConfig) -> EmuResult {
    let mut m = Machine { prog, regs: [0; 32], rdef: [false; 32], heap: Region::new(HEAP_BASE, cfg.heap_bytes, true), max_written: 0, stats: EmuStats::default() };
    // everything but heap, free and the arguments is undefined at entry
    for r in 1..32usize {
        m.regs[r] = 0xDEAD_0000_0000_0000 | r as u64;
    }
    m.rdef[reg_zero() as usize] = true;
    m.set(reg_heap(), HEAP_BASE, true);
    m.set(reg_free(), HEAP_BASE + BLOCK, true);
    for (k, a) in args.iter().enumerate() {
        if let Some(r) = position_reg(TemporaryNumber::Snd, k) {
            m.set(r, *a as u64, true);
        }
    }
    if let Some(h) = &cfg.init_heap {
        for (i, w) in h.iter().enumerate() {
            if i < m.heap.words.len() {
                m.heap.words[i] = *w;
            }
        }
    }
    let stop_idx = cfg.stop_label.as_ref().and_then(|l| prog.labels.get(l).copied());
    let mut snapshot = None;
    let mut monitor = HeapMonitor { enforce_shape: Some(cfg.enforce_shape), ..Default::default() };
    let mut pc = prog.entry;
    let mut violation = None;
    let end: Result<i64, Undefined> = loop {
        if stop_idx == Some(pc) {
            snapshot = Some(Snapshot2 {
                regs: (0..32).map(|r| (m.regs[r], m.rdef[r])).collect(),
                sp: 0,
                stack_base: 0,
                stack_words: Vec::new(),
                stack_def: Vec::new(),
                heap_words: m.heap.words.clone(),
            });
            break Ok(0);
        }
        if prog.exit == Some(pc) {
            match m.exit::<()>() {
                Err(Stop::Done(v)) => break Ok(v),
                Err(Stop::Viol(kind, msg)) => {
                    violation = Some(Violation { kind, msg, pc_line: prog.line.get(pc).copied().unwrap_or(0) });
                    break Err(Undefined::Internal("sanitizer"));
                }
                _ => unreachable!(),
            }
        }
        if pc >= prog.ins.len() {
            violation = Some(Violation { kind: ViolationKind::WildJump, msg: "execution fell off the end of the code".into(), pc_line: 0 });
            break Err(Undefined::Internal("fell off"));
        }
        m.stats.instructions += 1;
        if m.stats.instructions > cfg.max_instructions {
            break Err(Undefined::Fuel);
        }
        let ins = &prog.ins[pc];
        let step: Result<usize, Stop> = (|| match ins {
            Ins::Marker(mk) => {
                m.stats.markers += 1;
                *m.stats.marker_kinds.entry(mk.kind.clone()).or_insert(0) += 1;
                m.stats.max_env = m.stats.max_env.max(mk.env.len());
                if cfg.heap_check_every > 0 && m.stats.markers % cfg.heap_check_every == 0 {
                    let roots = m.roots_for(mk.env.len());
                    let view = HeapView { heap: &m.heap, heap_reg: m.get(reg_heap()), free_reg: m.get(reg_free()), roots, max_written: m.max_written };
                    let fp = cfg.footprint_check && cfg.heap_check_every == 1;
                    let mut st = std::mem::take(&mut m.stats);
                    let r = monitor.check(&view, mk, &mut st, fp);
                    m.stats = st;
                    if let Err((k, msg)) = r {
                        if msg == "monitor budget" {
                                return Err(Stop::Undef(Undefined::Fuel));
                            }
                            if msg == "heap exhausted" {
                            if std::env::var("EMU_DEBUG").is_ok() {
                                eprintln!("heap exhausted in monitor: free={:#x}", m.get(reg_free()).0);
                            }
                            return Err(Stop::Undef(Undefined::Heap));
                        }
                        return Machine::viol(k, format!("at marker stmt={} env={}: {msg}", mk.kind, mk.env.len()));
                    }
                }
                Ok(pc + 1)
            }
            Ins::Op(op, d, a, b) => {
                let (x, dx) = m.get(*a);
                let (y, dy) = m.get(*b);
                if matches!(op, Alu::Div | Alu::Rem | Alu::Divw | Alu::Remw | Alu::Divu | Alu::Remu) && !dy {
                    return Machine::viol(ViolationKind::Poison, "division by an undefined value".into());
                }
                m.set(*d, alu(*op, x, y), dx && dy);
                Ok(pc + 1)
            }
            Ins::Addi(d, a, i) => {
                let (x, dx) = m.get(*a);
                m.set(*d, x.wrapping_add(*i as u64), dx);
                Ok(pc + 1)
            }
            Ins::Li(d, i) => {
                m.set(*d, *i as u64, true);
                Ok(pc + 1)
            }
            Ins::Mv(d, s) => {
                let (v, dv) = m.get(*s);
                m.set(*d, v, dv);
                Ok(pc + 1)
            }
            Ins::La(d, l) => {
                let a = m.label_addr(l)?;
                m.set(*d, a, true);
                Ok(pc + 1)
            }
            Ins::Lw(d, base, off) => {
                let a = m.addr_of(*base, *off)?;
                let i = m.mem_check(a, false)?;
                let (v, dv) = (m.heap.words[i], m.heap.def[i]);
                m.set(*d, v, dv);
                Ok(pc + 1)
            }
            Ins::Sw(s, base, off) => {
                let a = m.addr_of(*base, *off)?;
                let i = m.mem_check(a, true)?;
                let (v, dv) = m.get(*s);
                m.heap.words[i] = v;
                m.heap.def[i] = dv;
                Ok(pc + 1)
            }
            Ins::Jal(d, l) => {
                let t = m.jump_label(l)?;
                m.set(*d, prog.addr[pc].wrapping_add(INS_BYTES), true);
                Ok(t)
            }
            Ins::Jalr(d, s, i) => {
                let (v, dv) = m.get(*s);
                if !dv {
                    return Machine::viol(ViolationKind::Poison, format!("indirect jump through undefined register X{s}"));
                }
                let a = v.wrapping_add(*i as u64) & !1;
                match prog.addr_to_idx.get(&a) {
                    Some(t) => {
                        m.set(*d, prog.addr[pc].wrapping_add(INS_BYTES), true);
                        Ok(*t)
                    }
                    None => Machine::viol(ViolationKind::WildJump, format!("indirect jump to {a:#x}, which is not the start of an instruction")),
                }
            }
            Ins::Br(c, a, b, l) => {
                let (x, dx) = m.get(*a);
                let (y, dy) = m.get(*b);
                if !dx || !dy {
                    return Machine::viol(ViolationKind::Poison, "conditional jump depends on an undefined value".into());
                }
                if cond(*c, x, y) { m.jump_label(l) } else { Ok(pc + 1) }
            }
        })();
        match step {
            Ok(n) => pc = n,
            Err(Stop::Done(v)) => break Ok(v),
            Err(Stop::Undef(u)) => break Err(u),
            Err(Stop::Viol(kind, msg)) => {
                violation = Some(Violation { kind, msg, pc_line: prog.line[pc] });
                break Err(Undefined::Internal("sanitizer"));
            }
        }
    };
    let mut stats = m.stats;
    stats.max_frontier_blocks = stats.max_frontier_blocks.max(monitor.max_frontier);
    EmuResult { outcome: Outcome { prints: Vec::new(), end }, violation, stats, snapshot }
}

#[cfg(test)]
mod tests {
    use super::*;

    fn cfg() -> EmuConfig {
        EmuConfig { heap_bytes: 1 << 12, max_instructions: 10_000, heap_check_every: 1, footprint_check: true, ..Default::default() }
    }

    /// body of `main_` followed by the epilogue the backend prints
    fn wrap(body: &str) -> String {
        format!("// actual code\nmain_:\n{body}\n\ncleanup:")
    }

    fn exec(body: &str, args: &[i64]) -> EmuResult {
        let p = parse(&wrap(body)).expect("parse");
        run(&p, args, &cfg())
    }

    fn value(body: &str, args: &[i64]) -> i64 {
        let r = exec(body, args);
        assert!(r.violation.is_none(), "violation: {:?}", r.violation);
        r.outcome.end.expect("defined result")
    }

    fn violation(body: &str, args: &[i64]) -> ViolationKind {
        exec(body, args).violation.expect("a violation").kind
    }

    #[test]
    fn li_mv_and_exit() {
        assert_eq!(value("LI X5 42\nMV X10 X5\nJAL X0 cleanup", &[]), 42);
        assert_eq!(value("LI X5 -9223372036854775808\nMV X10 X5\nJAL X0 cleanup", &[]), i64::MIN);
        // falling through into the exit label also reaches it
        assert_eq!(value("LI X10 7", &[]), 7);
        // arguments: position i lives in X(2i+5)
        assert_eq!(value("SUB X10 X5 X7\nJAL X0 cleanup", &[10, 3]), 7);
        // the zero register reads as zero and ignores writes
        assert_eq!(value("LI X0 5\nMV X10 X0", &[]), 0);
    }

    #[test]
    fn exit_without_cleanup_label() {
        let p = parse("// actual code\nmain_:\nLI X10 3\nJAL X0 cleanup").unwrap();
        let r = run(&p, &[], &cfg());
        assert!(r.violation.is_none());
        assert_eq!(r.outcome.end, Ok(3));
        // any other undefined label is a wild jump
        let p = parse("// actual code\nmain_:\nLI X10 3\nJAL X0 nowhere").unwrap();
        assert_eq!(run(&p, &[], &cfg()).violation.unwrap().kind, ViolationKind::WildJump);
    }

    #[test]
    fn add_register_and_immediate() {
        assert_eq!(value("LI X5 40\nLI X7 2\nADD X10 X5 X7", &[]), 42);
        assert_eq!(value("LI X5 40\nADD X10 X5 -41", &[]), -1);
        assert_eq!(value("LI X5 9223372036854775807\nADD X10 X5 1", &[]), i64::MIN);
        assert_eq!(value("LI X5 5\nLI X7 8\nSUB X10 X5 X7", &[]), -3);
    }

    #[test]
    fn mul_div_rem_signs() {
        let bin = |op: &str, a: i64, b: i64| value(&format!("LI X5 {a}\nLI X7 {b}\n{op} X10 X5 X7"), &[]);
        assert_eq!(bin("MUL", -6, 7), -42);
        assert_eq!(bin("MUL", i64::MAX, 2), -2);
        // truncation towards zero, remainder has the sign of the dividend
        assert_eq!(bin("DIV", 7, 2), 3);
        assert_eq!(bin("DIV", -7, 2), -3);
        assert_eq!(bin("DIV", 7, -2), -3);
        assert_eq!(bin("DIV", -7, -2), 3);
        assert_eq!(bin("REM", 7, 2), 1);
        assert_eq!(bin("REM", -7, 2), -1);
        assert_eq!(bin("REM", 7, -2), 1);
        assert_eq!(bin("REM", -7, -2), -1);
    }

    #[test]
    fn division_by_zero_and_overflow_do_not_trap() {
        let bin = |op: &str, a: i64, b: i64| value(&format!("LI X5 {a}\nLI X7 {b}\n{op} X10 X5 X7"), &[]);
        assert_eq!(bin("DIV", 17, 0), -1);
        assert_eq!(bin("DIV", -17, 0), -1);
        assert_eq!(bin("REM", 17, 0), 17);
        assert_eq!(bin("REM", -17, 0), -17);
        assert_eq!(bin("DIV", i64::MIN, -1), i64::MIN);
        assert_eq!(bin("REM", i64::MIN, -1), 0);
    }

    #[test]
    fn branch_conditions() {
        // result 1 if the branch is taken, 0 otherwise
        let taken = |b: &str, x: i64, y: i64| value(&format!("LI X5 {x}\nLI X7 {y}\nLI X10 1\n{b} X5 X7 out\nLI X10 0\n\nout:"), &[]) == 1;
        for (b, lt, eq, gt) in [("BEQ", false, true, false), ("BNE", true, false, true), ("BLT", true, false, false), ("BLE", true, true, false), ("BGT", false, false, true), ("BGE", false, true, true)] {
            assert_eq!(taken(b, -3, 2), lt, "{b} on less (signed)");
            assert_eq!(taken(b, 4, 4), eq, "{b} on equal");
            assert_eq!(taken(b, 2, -3), gt, "{b} on greater (signed)");
        }
        // comparisons against the zero register
        assert_eq!(value("LI X5 -1\nLI X10 1\nBLT X5 X0 out\nLI X10 0\n\nout:", &[]), 1);
        assert_eq!(value("LI X5 0\nLI X10 1\nBGT X5 X0 out\nLI X10 0\n\nout:", &[]), 0);
    }

    #[test]
    fn load_store_round_trip_is_64_bit() {
        // heap register X2 = HEAP_BASE; the operand order is `value offset base`
        assert_eq!(value("LI X5 -81985529216486896\nSW X5 56 X2\nLW X10 56 X2", &[]), -81985529216486896);
        // the heap starts out as defined zeros
        assert_eq!(value("LW X10 16 X2", &[]), 0);
        // free pointer is one block above the heap pointer
        assert_eq!(value("SUB X10 X3 X2", &[]), BLOCK as i64);
        // negative offsets and the zero register as source
        assert_eq!(value("LI X5 9\nSW X5 0 X3\nSW X0 -64 X3\nLW X7 0 X3\nLW X9 0 X2\nADD X10 X7 X9", &[]), 9);
    }

    #[test]
    fn memory_outside_the_heap() {
        assert_eq!(violation("LW X10 -8 X2", &[]), ViolationKind::OutOfBounds);
        assert_eq!(violation("LW X10 4 X2", &[]), ViolationKind::OutOfBounds);
        assert_eq!(violation("LI X5 0\nSW X5 0 X5", &[]), ViolationKind::OutOfBounds);
        // just beyond the configured heap: not enough heap, no verdict
        let r = exec("LI X5 4096\nADD X5 X5 X2\nLW X10 0 X5", &[]);
        assert!(r.violation.is_none());
        assert_eq!(r.outcome.end, Err(Undefined::Heap));
    }

    #[test]
    fn la_and_jalr_through_a_jump_table() {
        // the shape of `switch`: LA table; ADD tag; JALR; table of JALs; clauses
        let prog = |tag: i64| {
            format!(
                "LI X5 {tag}\nLA X1 T_1\nADD X1 X1 X5\nJALR X0 X1 0\n\nT_1:\nJAL X0 T_1_A\nJAL X0 T_1_B\nJAL X0 T_1_C\n\nT_1_A:\nLI X10 100\nJAL X0 cleanup\n\nT_1_B:\nLI X10 200\nJAL X0 cleanup\n\nT_1_C:\nLI X10 300\nJAL X0 cleanup"
            )
        };
        assert_eq!(value(&prog(0), &[]), 100);
        assert_eq!(value(&prog(4), &[]), 200);
        assert_eq!(value(&prog(8), &[]), 300);
        // not an instruction start
        assert_eq!(violation(&prog(2), &[]), ViolationKind::WildJump);
        assert_eq!(violation(&prog(-4000), &[]), ViolationKind::WildJump);
        // the shape of `invoke`: ADD X1 table imm; JALR X0 X1 0, table address held in a variable
        let inv = "LA X5 T_2\nADD X1 X5 4\nJALR X0 X1 0\n\nT_2:\nJAL X0 T_2_A\nJAL X0 T_2_B\n\nT_2_A:\nLI X10 1\nJAL X0 cleanup\n\nT_2_B:\nLI X10 2\nJAL X0 cleanup";
        assert_eq!(value(inv, &[]), 2);
        // JALR with a link register and an immediate offset
        assert_eq!(value("LA X5 here\nJALR X7 X5 4\n\nhere:\nLI X10 1\nSUB X10 X7 X5", &[]), 0);
    }

    #[test]
    fn markers_take_no_space_and_are_visited_by_indirect_jumps() {
        let body = "LA X1 T_1\nJALR X0 X1 4\n\nT_1:\nJAL X0 T_1_A\n// @verif stmt=lit n=0 env=[]\n// lit x <- 1;\nLI X10 5\nJAL X0 cleanup\n\nT_1_A:\nLI X10 6";
        let r = exec(body, &[]);
        assert!(r.violation.is_none(), "{:?}", r.violation);
        assert_eq!(r.outcome.end, Ok(5));
        assert_eq!(r.stats.markers, 1);
        assert_eq!(r.stats.heap_walks, 1);
    }

    #[test]
    fn heap_monitor_sees_roots_in_the_first_temporaries() {
        // position 0 -> X4, position 1 -> X6 (first temporaries); an undefined pointer root is poison
        assert_eq!(violation("// @verif stmt=exit n=0 env=[a:prd]\nLI X10 0", &[]), ViolationKind::Poison);
        // a root that is no block address
        assert_eq!(violation("LI X4 0\nLI X6 24\n// @verif stmt=exit n=0 env=[a:prd,b:cns]\nLI X10 0", &[]), ViolationKind::Heap);
        // bump the frontier without keeping the block: lost block
        assert_eq!(violation("ADD X3 X3 64\n// @verif stmt=exit n=0 env=[]\nLI X10 0", &[]), ViolationKind::Heap);
        // a well-formed one-block object held by position 1, integers are not roots
        let ok = "MV X6 X2\nMV X2 X3\nADD X3 X3 64\n// @verif stmt=exit n=0 env=[i:ext,b:prd]\nLI X10 0";
        let r = exec(ok, &[]);
        assert!(r.violation.is_none(), "{:?}", r.violation);
        assert_eq!(r.stats.max_reachable_blocks, 1);
    }

    #[test]
    fn poison_uses() {
        // everything but heap, free and the arguments is undefined at entry
        assert_eq!(violation("MV X10 X5\nJAL X0 cleanup", &[]), ViolationKind::Poison);
        assert_eq!(violation("JAL X0 cleanup", &[]), ViolationKind::Poison);
        assert_eq!(violation("BEQ X5 X0 cleanup", &[]), ViolationKind::Poison);
        assert_eq!(violation("LW X10 0 X5", &[]), ViolationKind::Poison);
        assert_eq!(violation("JALR X0 X1 0", &[]), ViolationKind::Poison);
        assert_eq!(violation("LI X5 1\nDIV X10 X5 X7", &[]), ViolationKind::Poison);
        // propagation through arithmetic and memory
        assert_eq!(violation("LI X5 1\nADD X7 X5 X9\nSW X7 16 X2\nLW X10 16 X2", &[]), ViolationKind::Poison);
        // an argument is defined
        assert_eq!(value("MV X10 X5", &[11]), 11);
    }

    /// the backend's own golden files (printed without markers) all parse and run to `cleanup`
    #[test]
    fn golden_files_of_the_backend() {
        let dir = std::path::Path::new("/repo/lang/axcut2rv64/tests/asm");
        let Ok(rd) = std::fs::read_dir(dir) else { return };
        let mut seen = 0;
        for e in rd.flatten() {
            let name = e.file_name().to_string_lossy().to_string();
            let Some(stem) = name.strip_suffix(".rv64.asm") else { continue };
            let text = std::fs::read_to_string(e.path()).unwrap();
            let p = parse(&text).unwrap_or_else(|err| panic!("{name}: {err}"));
            let r = run(&p, &[], &EmuConfig::default());
            assert!(r.violation.is_none(), "{name}: {:?}", r.violation);
            let v = r.outcome.end.unwrap_or_else(|u| panic!("{name}: {u:?}"));
            eprintln!("{name}: {v} after {} instructions", r.stats.instructions);
            match stem {
                "mini" => assert_eq!(v, 10),
                "arith" => assert_eq!(v, 60),
                // head of Cons(9, Cons(7, Cons(5, Nil)))
                "list" => assert_eq!(v, 9),
                _ => {}
            }
            seen += 1;
        }
        assert!(seen >= 2);
    }

    #[test]
    fn unknown_forms_are_harness_errors() {
        for bad in ["ADDI X5 X5 1", "LW X5 X2 16", "LW X5 16(X2)", "MV X5 7", "LI X5 X7", "ADD X5 X7", "BEQ X5 0 lab", "JALR X0 X1", "X5", "add X5 X5 X5", "LI X32 0", "NOP"] {
            let e = parse(&wrap(bad)).err().unwrap_or_else(|| panic!("{bad} accepted"));
            assert!(e.contains("unknown instruction form"), "{e}");
        }
        assert!(parse("LI X5 1").is_err(), "no label, no entry point");
        // fuel
        let p = parse(&wrap("\nloop:\nJAL X0 loop")).unwrap();
        assert_eq!(run(&p, &[], &cfg()).outcome.end, Err(Undefined::Fuel));
    }
}
