//! RISC-V emulator (to be written)
use super::*;
pub struct Program;
pub fn parse(_text: &str) -> Result<Program, String> {
    Err("rv64 emulator not built yet".into())
}
pub fn run(_p: &Program, _args: &[i64], _cfg: &EmuConfig) -> EmuResult {
    unreachable!()
}
