//! AArch64 subset emulator for the text printed by `axcut2aarch64` (GNU syntax, upper case), with
//! poison tracking, bounds checks, an ABI monitor at external calls / the final return and the
//! statement-boundary heap monitor.  Mirrors `x86.rs`.
//!
//! Supported forms (exactly what `impl Print for Code` in axcut2aarch64/src/code.rs can print):
//!   ADD/SUB Xd, Xn, Xm | ADD/SUB Xd|SP, Xn|SP, imm | MUL | SDIV | MSUB Xd, Xn, Xm, Xa
//!   B l | BR Xn | BL l | ADR Xd, l | MOV Xd, Xm | MOVZ/MOVN/MOVK Xd, imm, LSL s
//!   LDR/STR Xt, [ Xn|SP, imm ] | LDP Xt1, Xt2, [ Xn|SP ], imm | STP Xt1, Xt2, [ Xn|SP, imm ]!
//!   CMP Xn, Xm | CMP Xn, imm | BEQ/BNE/BLT/BLE/BGT/BGE l | RET
//!   labels `name:`, directives `.text` / `.global`, comments `// ...` (`// @verif ...` = marker)

use super::*;
use axcut2aarch64::config::{FREE, HEAP, Register as BReg, Temporary, stack_offset};
use axcut2backend::config::TemporaryNumber;
use axcut2backend::utils::Utils;

/// 0..=30 = X0..X30, 31 = SP, 32 = XZR
pub type Reg = u8;
pub const LR: Reg = 30;
pub const SP: Reg = 31;
pub const XZR: Reg = 32;

#[derive(Clone, Copy, Debug, PartialEq, Eq)]
pub enum Cc {
    Eq,
    Ne,
    Lt,
    Le,
    Gt,
    Ge,
    // not emitted by the backend today; architectural meaning, so that a change is judged
    Hi,
    Hs,
    Lo,
    Ls,
    Mi,
    Pl,
}

#[derive(Clone, Debug)]
pub enum Ins {
    Add(Reg, Reg, Reg),
    AddI(Reg, Reg, i64),
    Sub(Reg, Reg, Reg),
    SubI(Reg, Reg, i64),
    Mul(Reg, Reg, Reg),
    Sdiv(Reg, Reg, Reg),
    /// MSUB Xd, Xn, Xm, Xa : Xd = Xa - Xn * Xm
    Msub(Reg, Reg, Reg, Reg),
    B(String),
    Br(Reg),
    Bl(String),
    Adr(Reg, String),
    Mov(Reg, Reg),
    Movz(Reg, i64, i64),
    Movn(Reg, i64, i64),
    Movk(Reg, i64, i64),
    Ldr(Reg, Reg, i64),
    Str(Reg, Reg, i64),
    /// LDP Xt1, Xt2, [ Xn ], imm
    LdpPost(Reg, Reg, Reg, i64),
    /// STP Xt1, Xt2, [ Xn, imm ]!
    StpPre(Reg, Reg, Reg, i64),
    CmpR(Reg, Reg),
    CmpI(Reg, i64),
    Bcc(Cc, String),
    Ret,
    Marker(Marker),
}

#[derive(Debug)]
pub struct Program {
    pub ins: Vec<Ins>,
    pub line: Vec<usize>,
    pub addr: Vec<u64>,
    pub labels: HashMap<String, usize>,
    pub addr_to_idx: HashMap<u64, usize>,
    pub entry: usize,
    /// resolved label operand of B / B.cond / ADR (usize::MAX = none / undefined label)
    pub target: Vec<usize>,
    /// why the instruction has no encoding (checked when it is executed)
    pub unenc: Vec<Option<String>>,
}

fn reg_name(r: Reg) -> String {
    match r {
        SP => "SP".into(),
        XZR => "XZR".into(),
        n => format!("X{n}"),
    }
}

fn reg(s: &str) -> Option<Reg> {
    match s {
        "SP" => Some(SP),
        "XZR" => Some(XZR),
        _ => {
            let n: u8 = s.strip_prefix('X')?.parse().ok()?;
            // canonical spelling only (no X07, X+3, X31)
            if n <= 30 && format!("X{n}") == s { Some(n) } else { None }
        }
    }
}

fn imm(s: &str) -> Option<i64> {
    if s.is_empty() || s.starts_with('+') {
        return None;
    }
    s.parse::<i64>().ok()
}

/// backend register (axcut2aarch64::config::Register) -> hardware register index used here;
/// the backend skips X18, exactly as its printer does
pub fn backend_reg(r: BReg) -> Reg {
    match r {
        BReg::X(n) if n < 18 => n as Reg,
        BReg::X(n) => (n + 1) as Reg,
        BReg::SP => SP,
        BReg::XZR => XZR,
    }
}

fn tokenize(s: &str) -> Vec<&str> {
    let mut out = Vec::new();
    let mut start: Option<usize> = None;
    for (i, ch) in s.char_indices() {
        let punct = matches!(ch, ',' | '[' | ']' | '!');
        if ch.is_whitespace() || punct {
            if let Some(b) = start.take() {
                out.push(&s[b..i]);
            }
            if punct {
                out.push(&s[i..i + ch.len_utf8()]);
            }
        } else if start.is_none() {
            start = Some(i);
        }
    }
    if let Some(b) = start {
        out.push(&s[b..]);
    }
    out
}

fn label_operand(s: &str) -> Option<String> {
    let s = s.trim();
    if s.is_empty() || s.contains(char::is_whitespace) || s.contains(',') { None } else { Some(s.to_string()) }
}

fn parse_ins(mn: &str, rest: &str) -> Option<Ins> {
    let toks = tokenize(rest);
    let t = toks.as_slice();
    Some(match (mn, t) {
        ("ADD" | "SUB", [d, ",", n, ",", m]) => {
            let (d, n) = (reg(d)?, reg(n)?);
            if let Some(m) = reg(m) {
                if mn == "ADD" { Ins::Add(d, n, m) } else { Ins::Sub(d, n, m) }
            } else {
                let i = imm(m)?;
                if mn == "ADD" { Ins::AddI(d, n, i) } else { Ins::SubI(d, n, i) }
            }
        }
        ("MUL", [d, ",", n, ",", m]) => Ins::Mul(reg(d)?, reg(n)?, reg(m)?),
        ("SDIV", [d, ",", n, ",", m]) => Ins::Sdiv(reg(d)?, reg(n)?, reg(m)?),
        ("MSUB", [d, ",", n, ",", m, ",", a]) => Ins::Msub(reg(d)?, reg(n)?, reg(m)?, reg(a)?),
        ("B", _) => Ins::B(label_operand(rest)?),
        ("BL", _) => Ins::Bl(label_operand(rest)?),
        ("BR", [r]) => Ins::Br(reg(r)?),
        ("ADR", _) => {
            let (r, l) = rest.split_once(',')?;
            Ins::Adr(reg(r.trim())?, label_operand(l)?)
        }
        ("MOV", [d, ",", s]) => Ins::Mov(reg(d)?, reg(s)?),
        ("MOVZ" | "MOVN" | "MOVK", [d, ",", i, ",", "LSL", s]) => {
            let (d, i, s) = (reg(d)?, imm(i)?, imm(s)?);
            match mn {
                "MOVZ" => Ins::Movz(d, i, s),
                "MOVN" => Ins::Movn(d, i, s),
                _ => Ins::Movk(d, i, s),
            }
        }
        ("LDR", [t, ",", "[", b, ",", i, "]"]) => Ins::Ldr(reg(t)?, reg(b)?, imm(i)?),
        ("STR", [t, ",", "[", b, ",", i, "]"]) => Ins::Str(reg(t)?, reg(b)?, imm(i)?),
        ("LDP", [t1, ",", t2, ",", "[", b, "]", ",", i]) => Ins::LdpPost(reg(t1)?, reg(t2)?, reg(b)?, imm(i)?),
        ("STP", [t1, ",", t2, ",", "[", b, ",", i, "]", "!"]) => Ins::StpPre(reg(t1)?, reg(t2)?, reg(b)?, imm(i)?),
        ("CMP", [a, ",", b]) => {
            let a = reg(a)?;
            if let Some(b) = reg(b) { Ins::CmpR(a, b) } else { Ins::CmpI(a, imm(b)?) }
        }
        ("BEQ", _) => Ins::Bcc(Cc::Eq, label_operand(rest)?),
        ("BNE", _) => Ins::Bcc(Cc::Ne, label_operand(rest)?),
        ("BLT", _) => Ins::Bcc(Cc::Lt, label_operand(rest)?),
        ("BLE", _) => Ins::Bcc(Cc::Le, label_operand(rest)?),
        ("BGT", _) => Ins::Bcc(Cc::Gt, label_operand(rest)?),
        ("BGE", _) => Ins::Bcc(Cc::Ge, label_operand(rest)?),
        ("BHI", _) => Ins::Bcc(Cc::Hi, label_operand(rest)?),
        ("BHS" | "BCS", _) => Ins::Bcc(Cc::Hs, label_operand(rest)?),
        ("BLO" | "BCC", _) => Ins::Bcc(Cc::Lo, label_operand(rest)?),
        ("BLS", _) => Ins::Bcc(Cc::Ls, label_operand(rest)?),
        ("BMI", _) => Ins::Bcc(Cc::Mi, label_operand(rest)?),
        ("BPL", _) => Ins::Bcc(Cc::Pl, label_operand(rest)?),
        ("RET", []) => Ins::Ret,
        _ => return None,
    })
}

/// Register-role and immediate-range rules of the A64 encodings (register number 31 is SP in
/// some operand positions and XZR in others).
fn check_encodable(i: &Ins) -> Option<String> {
    let addsub_imm = |v: i64| -> bool { (0..=4095).contains(&v) || (v & 0xfff == 0 && (0..=4095).contains(&(v >> 12))) };
    let wide = |d: Reg, v: i64, s: i64| -> Option<String> {
        if d == SP {
            return Some("SP as the destination of a move-wide instruction".into());
        }
        if !(0..=65535).contains(&v) {
            return Some(format!("move-wide immediate {v} outside 0..65535"));
        }
        if !matches!(s, 0 | 16 | 32 | 48) {
            return Some(format!("move-wide shift {s} is not 0, 16, 32 or 48"));
        }
        None
    };
    match i {
        Ins::Add(d, n, m) | Ins::Sub(d, n, m) => {
            if *m == SP {
                return Some("SP as the second source operand of a register-form ADD/SUB".into());
            }
            if (*d == SP || *n == SP) && (*d == XZR || *n == XZR) {
                return Some("SP and XZR mixed in a register-form ADD/SUB".into());
            }
            None
        }
        Ins::AddI(d, n, v) | Ins::SubI(d, n, v) => {
            if *d == XZR || *n == XZR {
                return Some("XZR in an immediate-form ADD/SUB".into());
            }
            if !addsub_imm(*v) {
                return Some(format!("ADD/SUB immediate {v} outside 0..4095 (optionally shifted by 12)"));
            }
            None
        }
        Ins::Mul(d, n, m) | Ins::Sdiv(d, n, m) => {
            if [*d, *n, *m].contains(&SP) {
                return Some("SP as an operand of MUL/SDIV".into());
            }
            None
        }
        Ins::Msub(d, n, m, a) => {
            if [*d, *n, *m, *a].contains(&SP) {
                return Some("SP as an operand of MSUB".into());
            }
            None
        }
        Ins::Mov(d, s) => {
            if (*d == SP && *s == XZR) || (*d == XZR && *s == SP) {
                return Some("MOV between SP and XZR".into());
            }
            None
        }
        Ins::Movz(d, v, s) | Ins::Movn(d, v, s) | Ins::Movk(d, v, s) => wide(*d, *v, *s),
        Ins::Ldr(t, b, off) | Ins::Str(t, b, off) => {
            if *t == SP {
                return Some("SP as the transfer register of LDR/STR".into());
            }
            if *b == XZR {
                return Some("XZR as the base register of LDR/STR".into());
            }
            let scaled = (0..=32760).contains(off) && off % 8 == 0;
            let unscaled = (-256..=255).contains(off);
            if !scaled && !unscaled {
                return Some(format!("LDR/STR offset {off} not a multiple of 8 in 0..32760"));
            }
            None
        }
        Ins::LdpPost(t1, t2, b, off) | Ins::StpPre(t1, t2, b, off) => {
            if *t1 == SP || *t2 == SP {
                return Some("SP as a transfer register of LDP/STP".into());
            }
            if *b == XZR {
                return Some("XZR as the base register of LDP/STP".into());
            }
            if !(-512..=504).contains(off) || off % 8 != 0 {
                return Some(format!("LDP/STP offset {off} not a multiple of 8 in -512..504"));
            }
            if *b != SP && (*t1 == *b || *t2 == *b) {
                return Some("LDP/STP with writeback to a transfer register (unpredictable)".into());
            }
            if matches!(i, Ins::LdpPost(..)) && *t1 == *t2 && *t1 != XZR {
                return Some("LDP with two equal destination registers (unpredictable)".into());
            }
            None
        }
        Ins::CmpR(_, b) => {
            if *b == SP {
                return Some("SP as the second operand of CMP".into());
            }
            None
        }
        Ins::CmpI(a, v) => {
            if *a == XZR {
                return Some("XZR in an immediate-form CMP".into());
            }
            if !addsub_imm(*v) {
                return Some(format!("CMP immediate {v} outside 0..4095 (optionally shifted by 12)"));
            }
            None
        }
        Ins::Br(r) => {
            if *r == SP {
                return Some("SP as the target register of BR".into());
            }
            None
        }
        Ins::Adr(d, _) => {
            if *d == SP {
                return Some("SP as the destination of ADR".into());
            }
            None
        }
        _ => None,
    }
}

pub fn parse(text: &str) -> Result<Program, String> {
    let mut ins = Vec::new();
    let mut line = Vec::new();
    let mut labels: HashMap<String, usize> = HashMap::new();
    for (ln, raw) in text.lines().enumerate() {
        let t = raw.trim();
        if t.is_empty() {
            continue;
        }
        if let Some(c) = t.strip_prefix("//") {
            if let Some(m) = parse_marker(c) {
                ins.push(Ins::Marker(m));
                line.push(ln + 1);
            } else if c.trim_start().starts_with("@verif") {
                return Err(format!("line {}: malformed marker {t}", ln + 1));
            }
            continue;
        }
        if t == ".text" || t.starts_with(".global ") || t.starts_with(".globl ") {
            continue;
        }
        if let Some(l) = t.strip_suffix(':') {
            if l.is_empty() || l.contains(char::is_whitespace) {
                return Err(format!("line {}: bad label {t}", ln + 1));
            }
            if labels.insert(l.to_string(), ins.len()).is_some() {
                return Err(format!("line {}: duplicate label {l}", ln + 1));
            }
            continue;
        }
        let (mn, rest) = match t.split_once(char::is_whitespace) {
            Some((a, b)) => (a, b.trim()),
            None => (t, ""),
        };
        match parse_ins(mn, rest) {
            Some(i) => {
                ins.push(i);
                line.push(ln + 1);
            }
            None => return Err(format!("line {}: unknown instruction form: {t}", ln + 1)),
        }
    }
    // addresses: every instruction is 4 bytes, markers 0
    let mut addr = Vec::with_capacity(ins.len());
    let mut a = CODE_BASE;
    let mut addr_to_idx = HashMap::new();
    for (i, x) in ins.iter().enumerate() {
        addr.push(a);
        match x {
            Ins::Marker(_) => {}
            _ => {
                addr_to_idx.entry(a).or_insert(i);
                a += 4;
            }
        }
    }
    // an address maps to the first instruction at it, which may be preceded by zero-size markers
    for (i, x) in ins.iter().enumerate().rev() {
        if let Ins::Marker(_) = x {
            if i + 1 < ins.len() {
                addr_to_idx.insert(addr[i], i);
            }
        }
    }
    // markers at the very end have the end address, which is not an instruction start
    if let Some(last_real) = ins.iter().rposition(|x| !matches!(x, Ins::Marker(_))) {
        if last_real + 1 < ins.len() {
            addr_to_idx.remove(&a);
        }
    } else {
        addr_to_idx.clear();
    }
    // label operands and encodability
    let mut target = vec![usize::MAX; ins.len()];
    let mut unenc: Vec<Option<String>> = Vec::with_capacity(ins.len());
    for (i, x) in ins.iter().enumerate() {
        let mut why = check_encodable(x);
        let (l, range, what) = match x {
            Ins::B(l) => (Some(l), 1i64 << 27, "B"),
            Ins::Bcc(_, l) => (Some(l), 1i64 << 20, "B.cond"),
            Ins::Adr(_, l) => (Some(l), 1i64 << 20, "ADR"),
            _ => (None, 0, ""),
        };
        if let Some(l) = l {
            if let Some(t) = labels.get(l) {
                target[i] = *t;
                // a label at the very end of the text has the end address
                let ta = if *t < addr.len() { addr[*t] } else { a };
                let dist = ta as i64 - addr[i] as i64;
                if why.is_none() && !(-range..range).contains(&dist) {
                    why = Some(format!("{what} to {l}: distance {dist} bytes exceeds the reach of the instruction"));
                }
            }
        }
        unenc.push(why);
    }
    let entry = *labels.get("asm_main").ok_or("no asm_main label")?;
    Ok(Program { ins, line, addr, labels, addr_to_idx, entry, target, unenc })
}

pub struct Machine<'p> {
    pub prog: &'p Program,
    /// X0..X30, [31] = SP
    pub regs: [u64; 32],
    pub rdef: [bool; 32],
    pub heap: Region,
    pub stack: Region,
    /// operands (value, defined) of the last CMP
    pub flags: Option<((u64, bool), (u64, bool))>,
    /// flags were invalidated by an external call (and not set again since)
    pub flags_clobbered: bool,
    pub max_written: u64,
    /// heap and free registers at the marker of a print statement (must be unchanged at the next
    /// statement boundary)
    pub print_guard: Option<((u64, bool), (u64, bool))>,
    pub print_vars: Option<(Vec<(String, super::Chi)>, Vec<(u64, bool)>, Vec<(u64, bool)>)>,
    /// lowest stack address written so far
    pub stack_low: u64,
    pub prints: Vec<PrintEv>,
    pub stats: EmuStats,
    pub entry_sp: u64,
    /// first temporary of environment position i, by the backend's own map
    root_tmp: Vec<Temporary>,
    pub snapshot: Option<Snapshot2>,
}

enum Stop {
    Done(i64),
    Undef(Undefined),
    Viol(ViolationKind, String),
}

const RET_SENTINEL: u64 = 0x0000_dead_0000_beef;
const CALLEE_SENTINEL: u64 = 0xCA11_EE00_0000_0000;
/// X19..X28 and the frame pointer X29
const CALLEE_SAVED: [Reg; 11] = [19, 20, 21, 22, 23, 24, 25, 26, 27, 28, 29];
const CLOBBER_NOTE: &str = "clobbered by an external call";

/// suffix for Poison messages: was the offending undefined value produced by an external call?
fn note(v: u64, d: bool) -> String {
    if !d && v >> 48 == 0xDEAD { format!(" (value {v:#x} {CLOBBER_NOTE})") } else { String::new() }
}

impl<'p> Machine<'p> {
    fn viol<T>(kind: ViolationKind, msg: String) -> Result<T, Stop> {
        Err(Stop::Viol(kind, msg))
    }

    pub fn get(&self, r: Reg) -> (u64, bool) {
        if r == XZR { (0, true) } else { (self.regs[r as usize], self.rdef[r as usize]) }
    }

    pub fn set(&mut self, r: Reg, v: u64, d: bool) {
        if r != XZR {
            self.regs[r as usize] = v;
            self.rdef[r as usize] = d;
        }
    }

    fn mem_check(&mut self, addr: u64, write: bool) -> Result<(bool, usize), Stop> {
        if addr % 8 != 0 {
            return Self::viol(ViolationKind::OutOfBounds, format!("unaligned access at {addr:#x}"));
        }
        if self.heap.contains(addr) {
            self.stats.heap_accesses += 1;
            if write {
                self.max_written = self.max_written.max(addr);
            }
            return Ok((true, self.heap.idx(addr)));
        }
        if self.stack.contains(addr) {
            let sp = self.regs[SP as usize];
            if addr < sp {
                return Self::viol(ViolationKind::OutOfBounds, format!("access below the stack pointer at {addr:#x} (sp={sp:#x})"));
            }
            if addr >= self.entry_sp {
                return Self::viol(ViolationKind::OutOfBounds, format!("access to the caller's frame at {addr:#x}"));
            }
            self.stats.spill_accesses += 1;
            if write {
                self.stack_low = self.stack_low.min(addr);
            }
            return Ok((false, self.stack.idx(addr)));
        }
        if addr >= self.heap.end() && addr < self.heap.end() + (1 << 28) {
            if std::env::var("EMU_DEBUG").is_ok() {
                eprintln!("heap exhausted: access at {addr:#x}");
            }
            return Err(Stop::Undef(Undefined::Heap));
        }
        Self::viol(ViolationKind::OutOfBounds, format!("access outside heap and stack at {addr:#x}"))
    }

    /// value of the base register of a memory access, with the poison and SP-alignment rules
    fn base_of(&mut self, base: Reg) -> Result<u64, Stop> {
        let (v, d) = self.get(base);
        if !d {
            return Self::viol(ViolationKind::Poison, format!("address computed from undefined register {}{}", reg_name(base), note(v, d)));
        }
        if base == SP && v % 16 != 0 {
            return Self::viol(ViolationKind::Abi, format!("stack pointer {v:#x} not 16-byte aligned at an SP-relative memory access"));
        }
        Ok(v)
    }

    fn mem_read(&mut self, addr: u64) -> Result<(u64, bool), Stop> {
        let (h, i) = self.mem_check(addr, false)?;
        if h { Ok((self.heap.words[i], self.heap.def[i])) } else { Ok((self.stack.words[i], self.stack.def[i])) }
    }

    fn mem_write(&mut self, addr: u64, v: u64, d: bool) -> Result<(), Stop> {
        let (h, i) = self.mem_check(addr, true)?;
        if h {
            self.heap.words[i] = v;
            self.heap.def[i] = d;
        } else {
            self.stack.words[i] = v;
            self.stack.def[i] = d;
        }
        Ok(())
    }

    fn jump_label(&self, pc: usize, l: &str) -> Result<usize, Stop> {
        let t = self.prog.target[pc];
        if t == usize::MAX {
            return Err(Stop::Viol(ViolationKind::WildJump, format!("jump to undefined label {l}")));
        }
        Ok(t)
    }

    /// contents of the first (`snd` false) or second temporary of the variables at positions 0..n
    fn locs_for(&mut self, n: usize, snd: bool) -> Vec<(u64, bool)> {
        let mut out = Vec::with_capacity(n);
        for pos in 0..n {
            let ctx = super::x86::dummy_context(pos);
            let t = <axcut2aarch64::Backend as Utils<Temporary>>::fresh_temporary(if snd { TemporaryNumber::Snd } else { TemporaryNumber::Fst }, &ctx);
            match t {
                Temporary::Register(r) => out.push(self.get(backend_reg(r))),
                Temporary::Spill(s) => {
                    let a = self.regs[SP as usize].wrapping_add(stack_offset(s).val as u64);
                    if a % 8 == 0 && self.stack.contains(a) {
                        let i = self.stack.idx(a);
                        out.push((self.stack.words[i], self.stack.def[i]));
                    } else {
                        out.push((0, false));
                    }
                }
            }
        }
        out
    }

    fn roots_for(&mut self, n: usize) -> Vec<(u64, bool)> {
        // position -> temporary by the backend's own map: in a context with `pos` bindings,
        // fresh_temporary(Fst) is the first temporary of position pos
        while self.root_tmp.len() < n {
            let ctx = super::x86::dummy_context(self.root_tmp.len());
            let t = <axcut2aarch64::Backend as Utils<Temporary>>::fresh_temporary(TemporaryNumber::Fst, &ctx);
            self.root_tmp.push(t);
        }
        let mut out = Vec::with_capacity(n);
        for pos in 0..n {
            match self.root_tmp[pos] {
                Temporary::Register(r) => out.push(self.get(backend_reg(r))),
                Temporary::Spill(s) => {
                    let a = self.regs[SP as usize].wrapping_add(stack_offset(s).val as u64);
                    if a % 8 == 0 && self.stack.contains(a) {
                        let i = self.stack.idx(a);
                        out.push((self.stack.words[i], self.stack.def[i]));
                    } else {
                        out.push((0, false));
                    }
                }
            }
        }
        out
    }

    pub fn new(prog: &'p Program, args: &[i64], cfg: &EmuConfig) -> Machine<'p> {
        let mut m = Machine {
            prog,
            regs: [0; 32],
            rdef: [false; 32],
            heap: Region::new(HEAP_BASE, cfg.heap_bytes, true),
            stack: Region::new(STACK_TOP - STACK_SIZE, STACK_SIZE, false),
            flags: None,
            flags_clobbered: false,
            max_written: 0,
            print_guard: None,
            print_vars: None,
            stack_low: STACK_TOP,
            prints: Vec::new(),
            stats: EmuStats::default(),
            entry_sp: 0,
            root_tmp: Vec::new(),
            snapshot: None,
        };
        // entry state (AAPCS64): sp 16-byte aligned, return address in the link register
        let sp = STACK_TOP - 256;
        m.entry_sp = sp;
        m.set(SP, sp, true);
        m.set(LR, RET_SENTINEL, true);
        m.set(0, HEAP_BASE, true);
        for (k, a) in args.iter().enumerate() {
            if k < 7 {
                m.set(1 + k as Reg, *a as u64, true);
            }
        }
        // callee-saved registers hold the caller's values: must be preserved but never used
        for (k, r) in CALLEE_SAVED.iter().enumerate() {
            m.set(*r, CALLEE_SENTINEL + k as u64, false);
        }
        m
    }

    fn step(&mut self, pc: usize, cfg: &EmuConfig, monitor: &mut HeapMonitor) -> Result<usize, Stop> {
        let prog = self.prog;
        if let Some(why) = &prog.unenc[pc] {
            return Self::viol(ViolationKind::Unencodable, why.clone());
        }
        match &prog.ins[pc] {
            Ins::Marker(mk) => {
                self.stats.markers += 1;
                *self.stats.marker_kinds.entry(mk.kind.clone()).or_insert(0) += 1;
                self.stats.max_env = self.stats.max_env.max(mk.env.len());
                {
                    let now = (self.get(backend_reg(HEAP)), self.get(backend_reg(FREE)));
                    if let Some(before) = self.print_guard.take() {
                        if before != now && before.0.1 && before.1.1 {
                            return Self::viol(
                                ViolationKind::Abi,
                                format!("heap/free registers changed across a print statement: ({:#x}, {:#x}) before, ({:#x}, {:#x}) after (they must survive the external call)", before.0.0, before.1.0, now.0.0, now.1.0),
                            );
                        }
                    }
                    if mk.kind == "print" {
                        self.print_guard = Some(now);
                    }
                    // a print statement leaves the context as it is: every variable is found in
                    // the same place with the same contents at the next marker
                    if let Some((env, fst, snd)) = self.print_vars.take() {
                        if self.stats.print_changed.is_none() && env.iter().map(|e| &e.0).eq(mk.env.iter().map(|e| &e.0)) {
                            let (f2, s2) = (self.locs_for(env.len(), false), self.locs_for(env.len(), true));
                                self.stats.print_contexts_compared += 1;
                                self.stats.print_context_variables_compared += env.len() as u64;
                            for (i, (name, chi)) in env.iter().enumerate() {
                                let ext = matches!(chi, super::Chi::Ext);
                                if (snd[i].1 && snd[i] != s2[i]) || (!ext && fst[i].1 && fst[i] != f2[i]) {
                                    self.stats.print_changed = Some(format!(
                                        "variable {name} (position {i} of {}) held ({:#x}, {:#x}) before the print statement and ({:#x}, {:#x}) after it",
                                        env.len(), fst[i].0, snd[i].0, f2[i].0, s2[i].0
                                    ));
                                    break;
                                }
                            }
                        }
                    }
                    if mk.kind == "print" {
                        let (f, s2) = (self.locs_for(mk.env.len(), false), self.locs_for(mk.env.len(), true));
                        self.print_vars = Some((mk.env.clone(), f, s2));
                    }
                }
                if cfg.heap_check_every > 0 && self.stats.markers % cfg.heap_check_every == 0 {
                    let roots = self.roots_for(mk.env.len());
                    let heap_reg = self.get(backend_reg(HEAP));
                    let free_reg = self.get(backend_reg(FREE));
                    let view = HeapView { heap: &self.heap, heap_reg, free_reg, roots, max_written: self.max_written };
                    let fp = cfg.footprint_check && cfg.heap_check_every == 1;
                    let mut st = std::mem::take(&mut self.stats);
                    let r = monitor.check(&view, mk, &mut st, fp);
                    self.stats = st;
                    if let Err((k, msg)) = r {
                        if msg == "monitor budget" {
                                return Err(Stop::Undef(Undefined::Fuel));
                            }
                            if msg == "heap exhausted" {
                            if std::env::var("EMU_DEBUG").is_ok() {
                                eprintln!("heap exhausted in monitor: free={:#x}", free_reg.0);
                            }
                            return Err(Stop::Undef(Undefined::Heap));
                        }
                        // was the offending undefined value left behind by an external call?
                        let mut extra = String::new();
                        if k == ViolationKind::Poison {
                            if let Some((v, d)) = view.roots.iter().zip(mk.env.iter()).find(|((_, d), b)| b.1 != Chi::Ext && !*d).map(|(x, _)| *x) {
                                extra = note(v, d);
                            }
                        } else if !heap_reg.1 || !free_reg.1 {
                            extra = if !heap_reg.1 { note(heap_reg.0, false) } else { note(free_reg.0, false) };
                        }
                        return Self::viol(k, format!("at marker stmt={} env={}: {msg}{extra}", mk.kind, mk.env.len()));
                    }
                }
                Ok(pc + 1)
            }
            Ins::Mov(d, s) => {
                let (v, df) = self.get(*s);
                self.set(*d, v, df);
                Ok(pc + 1)
            }
            Ins::Add(d, n, m) | Ins::Sub(d, n, m) | Ins::Mul(d, n, m) => {
                let (a, da) = self.get(*n);
                let (b, db) = self.get(*m);
                let r = match &prog.ins[pc] {
                    Ins::Add(..) => a.wrapping_add(b),
                    Ins::Sub(..) => a.wrapping_sub(b),
                    _ => a.wrapping_mul(b),
                };
                self.set(*d, r, da && db);
                Ok(pc + 1)
            }
            Ins::AddI(d, n, i) | Ins::SubI(d, n, i) => {
                let (a, da) = self.get(*n);
                let r = if matches!(&prog.ins[pc], Ins::AddI(..)) { a.wrapping_add(*i as u64) } else { a.wrapping_sub(*i as u64) };
                self.set(*d, r, da);
                Ok(pc + 1)
            }
            Ins::Sdiv(d, n, m) => {
                let (a, da) = self.get(*n);
                let (b, db) = self.get(*m);
                if !db {
                    return Self::viol(ViolationKind::Poison, format!("division by an undefined value{}", note(b, db)));
                }
                // hardware: x / 0 = 0, i64::MIN / -1 = i64::MIN, no trap
                let r = if b == 0 { 0 } else { (a as i64).wrapping_div(b as i64) as u64 };
                self.set(*d, r, da);
                Ok(pc + 1)
            }
            Ins::Msub(d, n, m, a) => {
                let (x, dx) = self.get(*n);
                let (y, dy) = self.get(*m);
                let (z, dz) = self.get(*a);
                self.set(*d, z.wrapping_sub(x.wrapping_mul(y)), dx && dy && dz);
                Ok(pc + 1)
            }
            Ins::Movz(d, i, s) => {
                self.set(*d, (*i as u64) << *s, true);
                Ok(pc + 1)
            }
            Ins::Movn(d, i, s) => {
                self.set(*d, !((*i as u64) << *s), true);
                Ok(pc + 1)
            }
            Ins::Movk(d, i, s) => {
                let (old, dold) = self.get(*d);
                let r = (old & !(0xffffu64 << *s)) | ((*i as u64) << *s);
                self.set(*d, r, dold);
                Ok(pc + 1)
            }
            Ins::CmpR(a, b) => {
                self.flags = Some((self.get(*a), self.get(*b)));
                self.flags_clobbered = false;
                Ok(pc + 1)
            }
            Ins::CmpI(a, i) => {
                self.flags = Some((self.get(*a), (*i as u64, true)));
                self.flags_clobbered = false;
                Ok(pc + 1)
            }
            Ins::Bcc(cc, l) => {
                let Some(((a, da), (b, db))) = self.flags else {
                    let why = if self.flags_clobbered { format!(" (flags {CLOBBER_NOTE})") } else { String::new() };
                    return Self::viol(ViolationKind::Poison, format!("conditional jump without a preceding comparison{why}"));
                };
                if !da || !db {
                    let n = if !da { note(a, da) } else { note(b, db) };
                    return Self::viol(ViolationKind::Poison, format!("conditional jump depends on an undefined value{n}"));
                }
                let (a, b) = (a as i64, b as i64);
                let t = match cc {
                    Cc::Eq => a == b,
                    Cc::Ne => a != b,
                    Cc::Lt => a < b,
                    Cc::Le => a <= b,
                    Cc::Gt => a > b,
                    Cc::Ge => a >= b,
                    Cc::Hi => (a as u64) > (b as u64),
                    Cc::Hs => (a as u64) >= (b as u64),
                    Cc::Lo => (a as u64) < (b as u64),
                    Cc::Ls => (a as u64) <= (b as u64),
                    Cc::Mi => a.wrapping_sub(b) < 0,
                    Cc::Pl => a.wrapping_sub(b) >= 0,
                };
                if t { self.jump_label(pc, l) } else { Ok(pc + 1) }
            }
            Ins::B(l) => self.jump_label(pc, l),
            Ins::Br(r) => {
                let (a, d) = self.get(*r);
                if !d {
                    return Self::viol(ViolationKind::Poison, format!("indirect jump through undefined register {}{}", reg_name(*r), note(a, d)));
                }
                match prog.addr_to_idx.get(&a) {
                    Some(i) => Ok(*i),
                    None => Self::viol(ViolationKind::WildJump, format!("indirect jump to {a:#x}, which is not the start of an instruction")),
                }
            }
            Ins::Adr(r, l) => {
                let i = self.jump_label(pc, l)?;
                if i >= prog.addr.len() {
                    return Self::viol(ViolationKind::WildJump, format!("address of label {l} at the end of the code"));
                }
                self.set(*r, prog.addr[i], true);
                Ok(pc + 1)
            }
            Ins::Ldr(t, b, off) => {
                let a = self.base_of(*b)?.wrapping_add(*off as u64);
                let (v, d) = self.mem_read(a)?;
                self.set(*t, v, d);
                Ok(pc + 1)
            }
            Ins::Str(t, b, off) => {
                let a = self.base_of(*b)?.wrapping_add(*off as u64);
                let (v, d) = self.get(*t);
                self.mem_write(a, v, d)?;
                Ok(pc + 1)
            }
            Ins::StpPre(t1, t2, b, off) => {
                let a = self.base_of(*b)?.wrapping_add(*off as u64);
                let (v1, d1) = self.get(*t1);
                let (v2, d2) = self.get(*t2);
                if *b == SP && !self.stack.contains(a) {
                    return Self::viol(ViolationKind::OutOfBounds, "stack overflow".into());
                }
                // pre-index: the base is written back first, the pair goes to the new address
                self.set(*b, a, true);
                self.mem_write(a, v1, d1)?;
                self.mem_write(a.wrapping_add(8), v2, d2)?;
                Ok(pc + 1)
            }
            Ins::LdpPost(t1, t2, b, off) => {
                let a = self.base_of(*b)?;
                let (v1, d1) = self.mem_read(a)?;
                let (v2, d2) = self.mem_read(a.wrapping_add(8))?;
                self.set(*t1, v1, d1);
                self.set(*t2, v2, d2);
                self.set(*b, a.wrapping_add(*off as u64), true);
                Ok(pc + 1)
            }
            Ins::Bl(f) => {
                let newline = match f.as_str() {
                    "print_i64" => false,
                    "println_i64" => true,
                    _ => return Self::viol(ViolationKind::WildJump, format!("call of unknown external {f}")),
                };
                self.stats.ext_calls += 1;
                let (sp, spd) = self.get(SP);
                if !spd || sp % 16 != 0 {
                    return Self::viol(ViolationKind::Abi, format!("stack pointer {sp:#x} not 16-byte aligned at call {f}"));
                }
                let (v, d) = self.get(0);
                if !d {
                    return Self::viol(ViolationKind::Poison, format!("argument of {f} is undefined{}", note(v, d)));
                }
                self.prints.push(PrintEv { value: v as i64, newline });
                if self.prints.len() > 100_000 {
                    return Err(Stop::Undef(Undefined::Fuel));
                }
                // everything a real callee may clobber becomes undefined: X0..X17, the platform
                // register X18 and the link register
                for r in (0..=18).chain([LR]) {
                    self.set(r, 0xDEAD_0000_0000_0000 | r as u64, false);
                }
                self.flags = None;
                self.flags_clobbered = true;
                let mut a = self.stack_low.max(self.stack.base);
                while a < sp && self.stack.contains(a) {
                    let i = self.stack.idx(a);
                    if self.stack.def[i] || self.stack.words[i] != 0 {
                        self.stack.words[i] = 0xDEAD_5555_0000_0000;
                        self.stack.def[i] = false;
                    }
                    a += 8;
                }
                Ok(pc + 1)
            }
            Ins::Ret => {
                let (sp, spd) = self.get(SP);
                if !spd || sp != self.entry_sp {
                    return Self::viol(ViolationKind::Abi, format!("stack pointer at return is {sp:#x}, expected {:#x}", self.entry_sp));
                }
                let (lr, lrd) = self.get(LR);
                if lr != RET_SENTINEL || !lrd {
                    return Self::viol(ViolationKind::Abi, format!("return address was overwritten (X30={lr:#x}){}", note(lr, lrd)));
                }
                for (k, r) in CALLEE_SAVED.iter().enumerate() {
                    if self.regs[*r as usize] != CALLEE_SENTINEL + k as u64 {
                        return Self::viol(ViolationKind::Abi, format!("callee-saved register {} not restored", reg_name(*r)));
                    }
                }
                let (v, d) = self.get(0);
                if !d {
                    return Self::viol(ViolationKind::Poison, format!("result register undefined at return{}", note(v, d)));
                }
                Err(Stop::Done(v as i64))
            }
        }
    }

    /// run to completion; returns the end state of the observable and the violation, if any
    fn exec(&mut self, cfg: &EmuConfig) -> (Result<i64, Undefined>, Option<Violation>) {
        let prog = self.prog;
        let mut monitor = HeapMonitor { enforce_shape: Some(cfg.enforce_shape), ..Default::default() };
        // EMU_TRACE=1: print the source line of every executed item (diagnosis of findings)
        let trace = std::env::var("EMU_TRACE").is_ok();
        let mut pc = prog.entry;
        let mut violation = None;
        let stop_idx = cfg.stop_label.as_ref().and_then(|l| prog.labels.get(l).copied());
        let end: Result<i64, Undefined> = loop {
            if stop_idx == Some(pc) {
                self.snapshot = Some(Snapshot2 {
                    regs: (0..32).map(|r| (self.regs[r], self.rdef[r])).collect(),
                    sp: self.regs[SP as usize],
                    stack_base: self.stack.base,
                    stack_words: self.stack.words.clone(),
                    stack_def: self.stack.def.clone(),
                    heap_words: self.heap.words.clone(),
                });
                break Ok(0);
            }
            if pc >= prog.ins.len() {
                violation = Some(Violation { kind: ViolationKind::WildJump, msg: "execution fell off the end of the code".into(), pc_line: 0 });
                break Err(Undefined::Internal("fell off"));
            }
            self.stats.instructions += 1;
            if self.stats.instructions > cfg.max_instructions {
                break Err(Undefined::Fuel);
            }
            if trace {
                eprintln!("trace line {} sp={:#x}", prog.line[pc], self.regs[SP as usize]);
            }
            match self.step(pc, cfg, &mut monitor) {
                Ok(n) => pc = n,
                Err(Stop::Done(v)) => break Ok(v),
                Err(Stop::Undef(u)) => break Err(u),
                Err(Stop::Viol(kind, msg)) => {
                    violation = Some(Violation { kind, msg, pc_line: prog.line[pc] });
                    break Err(Undefined::Internal("sanitizer"));
                }
            }
        };
        self.stats.max_frontier_blocks = self.stats.max_frontier_blocks.max(monitor.max_frontier);
        (end, violation)
    }
}

pub fn run(prog: &Program, args: &[i64], cfg: &EmuConfig) -> EmuResult {
    let mut m = Machine::new(prog, args, cfg);
    if let Some(h) = &cfg.init_heap {
        for (i, w) in h.iter().enumerate() {
            if i < m.heap.words.len() {
                m.heap.words[i] = *w;
            }
        }
    }
    let (end, violation) = m.exec(cfg);
    let snapshot = m.snapshot.take();
    EmuResult { outcome: Outcome { prints: m.prints, end }, violation, stats: m.stats, snapshot }
}

#[cfg(test)]
mod tests {
    use super::*;

    fn cfg() -> EmuConfig {
        EmuConfig { heap_bytes: 1 << 16, max_instructions: 100_000, heap_check_every: 0, footprint_check: false, ..Default::default() }
    }

    fn wrap(body: &str) -> String {
        format!(".text\n.global asm_main\n\nasm_main:\n{body}\n")
    }

    fn run_body(body: &str, args: &[i64]) -> EmuResult {
        let p = parse(&wrap(body)).unwrap_or_else(|e| panic!("parse: {e}"));
        run(&p, args, &cfg())
    }

    fn result(body: &str) -> i64 {
        let r = run_body(body, &[]);
        if let Some(v) = &r.violation {
            panic!("violation {:?} line {}: {}", v.kind, v.pc_line, v.msg);
        }
        r.outcome.end.clone().unwrap_or_else(|e| panic!("undefined {e:?}"))
    }

    fn violation(body: &str) -> Violation {
        run_body(body, &[]).violation.expect("expected a violation")
    }

    /// load an immediate into Xr with MOVZ + MOVK (independent of the backend's synthesis)
    fn li(r: u8, v: i64) -> String {
        let u = v as u64;
        format!(
            "    MOVZ X{r}, {}, LSL 0\n    MOVK X{r}, {}, LSL 16\n    MOVK X{r}, {}, LSL 32\n    MOVK X{r}, {}, LSL 48\n",
            u & 0xffff,
            (u >> 16) & 0xffff,
            (u >> 32) & 0xffff,
            (u >> 48) & 0xffff
        )
    }

    #[test]
    fn movz_movn_movk_manual_cases() {
        // MOVN Xd, 0 = NOT(0) = -1
        assert_eq!(result("    MOVN X0, 0, LSL 0\n    RET"), -1);
        // 0x1234_0000_FFFF = MOVZ low halfword, MOVK halfword 2
        assert_eq!(result("    MOVZ X0, 65535, LSL 0\n    MOVK X0, 4660, LSL 32\n    RET"), 0x1234_0000_FFFF);
        // i64::MIN = 0x8000 << 48
        assert_eq!(result("    MOVZ X0, 32768, LSL 48\n    RET"), i64::MIN);
        // MOVZ zeroes all other halfwords even if the register held something before
        assert_eq!(result("    MOVN X0, 0, LSL 0\n    MOVZ X0, 7, LSL 16\n    RET"), 7 << 16);
        // MOVN with a shift: NOT(1 << 16); MOVK keeps the other 48 bits
        assert_eq!(result("    MOVN X0, 1, LSL 16\n    RET") as u64, 0xFFFF_FFFF_FFFE_FFFF);
        assert_eq!(result("    MOVN X0, 1, LSL 16\n    MOVK X0, 43981, LSL 0\n    RET") as u64, 0xFFFF_FFFF_FFFE_ABCD);
        assert_eq!(result("    MOVN X0, 0, LSL 0\n    MOVK X0, 0, LSL 48\n    RET") as u64, 0x0000_FFFF_FFFF_FFFF);
        // i64::MAX = MOVN of the top halfword 0x8000
        assert_eq!(result("    MOVN X0, 32768, LSL 48\n    RET"), i64::MAX);
    }

    #[test]
    fn backend_literal_synthesis_round_trips() {
        use axcut2aarch64::code::Code;
        use axcut2aarch64::config::Immediate;
        use axcut2backend::code::Instructions;
        use printer::Print;
        let vals: [i64; 18] = [
            0,
            -1,
            1,
            -2,
            65535,
            65536,
            -65536,
            -65537,
            0x1234_0000_FFFF,
            i64::MIN,
            i64::MAX,
            0x7FFF_FFFF,
            -0x8000_0000,
            0x0000_FFFF_0000_FFFFu64 as i64,
            0xFFFF_0000_FFFF_0000u64 as i64,
            0xFFFF_FFFF_0000_1234u64 as i64,
            0x0123_4567_89AB_CDEFu64 as i64,
            0xFFFF_1234_FFFF_FFFFu64 as i64,
        ];
        for v in vals {
            let mut code: Vec<Code> = Vec::new();
            <axcut2aarch64::Backend as Instructions<Code, Temporary, Immediate>>::load_immediate(Temporary::Register(BReg::X(0)), v.into(), &mut code);
            let mut body = String::new();
            for c in &code {
                body.push_str(&c.print_to_string(None));
                body.push('\n');
            }
            body.push_str("    RET");
            assert_eq!(result(&body), v, "literal {v:#x} via\n{body}");
        }
    }

    #[test]
    fn add_sub_mul_wrap_and_immediates() {
        assert_eq!(result(&format!("{}{}    ADD X0, X5, X6\n    RET", li(5, i64::MAX), li(6, 1))), i64::MIN);
        assert_eq!(result(&format!("{}{}    SUB X0, X5, X6\n    RET", li(5, i64::MIN), li(6, 1))), i64::MAX);
        assert_eq!(result(&format!("{}{}    MUL X0, X5, X6\n    RET", li(5, -7), li(6, 6))), -42);
        assert_eq!(result(&format!("{}{}    MUL X0, X5, X6\n    RET", li(5, i64::MIN), li(6, -1))), i64::MIN);
        assert_eq!(result(&format!("{}    ADD X0, X5, 4095\n    RET", li(5, -4095))), 0);
        assert_eq!(result(&format!("{}    SUB X0, X5, 1\n    RET", li(5, 0))), -1);
        // flags survive ADD/SUB (they are not the S variants)
        assert_eq!(result(&format!("{}    CMP X5, 3\n    ADD X5, X5, 10\n    BEQ yes\n    MOVZ X0, 0, LSL 0\n    RET\nyes:\n    MOVZ X0, 1, LSL 0\n    RET", li(5, 3))), 1);
    }

    #[test]
    fn sdiv_signs_and_edge_cases() {
        let div = |a: i64, b: i64| result(&format!("{}{}    SDIV X0, X5, X6\n    RET", li(5, a), li(6, b)));
        // rounds towards zero
        assert_eq!(div(7, 2), 3);
        assert_eq!(div(-7, 2), -3);
        assert_eq!(div(7, -2), -3);
        assert_eq!(div(-7, -2), 3);
        assert_eq!(div(0, 5), 0);
        // no trap: division by zero writes zero, the overflowing division wraps
        assert_eq!(div(123, 0), 0);
        assert_eq!(div(i64::MIN, -1), i64::MIN);
    }

    #[test]
    fn msub_remainder() {
        // the backend's sequence: SDIV X3, a, b ; MSUB d, X3, b, a   (d = a - (a/b)*b)
        let rem = |a: i64, b: i64| result(&format!("{}{}    SDIV X3, X5, X6\n    MSUB X0, X3, X6, X5\n    RET", li(5, a), li(6, b)));
        assert_eq!(rem(17, 5), 2);
        assert_eq!(rem(-17, 5), -2);
        assert_eq!(rem(17, -5), 2);
        assert_eq!(rem(-17, -5), -2);
        assert_eq!(rem(15, 5), 0);
        // x rem 0 = x on hardware (quotient 0), MIN rem -1 = 0
        assert_eq!(rem(9, 0), 9);
        assert_eq!(rem(i64::MIN, -1), 0);
        // plain MSUB: Xd = Xa - Xn*Xm
        assert_eq!(result(&format!("{}{}{}    MSUB X0, X5, X6, X7\n    RET", li(5, 3), li(6, 4), li(7, 100))), 88);
    }

    #[test]
    fn cmp_and_every_condition() {
        let pairs: [(i64, i64); 7] = [(1, 2), (2, 1), (3, 3), (-1, 1), (1, -1), (i64::MIN, i64::MAX), (i64::MAX, i64::MIN)];
        let conds: [(&str, fn(i64, i64) -> bool); 6] =
            [("BEQ", |a, b| a == b), ("BNE", |a, b| a != b), ("BLT", |a, b| a < b), ("BLE", |a, b| a <= b), ("BGT", |a, b| a > b), ("BGE", |a, b| a >= b)];
        for (a, b) in pairs {
            for (mn, f) in conds {
                let body = format!("{}{}    CMP X5, X6\n    {mn} taken\n    MOVZ X0, 0, LSL 0\n    RET\n\ntaken:\n    MOVZ X0, 1, LSL 0\n    RET", li(5, a), li(6, b));
                assert_eq!(result(&body), f(a, b) as i64, "{a} {mn} {b}");
            }
        }
        // immediate form, as used for the zero tests
        for a in [-5i64, 0, 5] {
            for (mn, f) in conds {
                let body = format!("{}    CMP X5, 0\n    {mn} taken\n    MOVZ X0, 0, LSL 0\n    RET\n\ntaken:\n    MOVZ X0, 1, LSL 0\n    RET", li(5, a));
                assert_eq!(result(&body), f(a, 0) as i64, "{a} {mn} 0");
            }
        }
    }

    #[test]
    fn conditional_branch_needs_defined_flags() {
        let v = violation("    BEQ l\nl:\n    RET");
        assert_eq!(v.kind, ViolationKind::Poison);
        // X9 is not defined at entry
        let v = violation("    CMP X9, 0\n    BEQ l\nl:\n    RET");
        assert_eq!(v.kind, ViolationKind::Poison);
        assert!(!v.msg.contains(CLOBBER_NOTE));
        // a callee-saved register holds the caller's value: may be moved around but not used
        let v = violation("    MOV X5, X19\n    CMP X5, 0\n    BEQ l\nl:\n    RET");
        assert_eq!(v.kind, ViolationKind::Poison);
    }

    #[test]
    fn stp_pre_index_ldp_post_index() {
        let p = parse(&wrap(&format!(
            "{}{}    STP X5, X6, [ SP, -16 ]!\n    LDR X7, [ SP, 0 ]\n    LDR X8, [ SP, 8 ]\n    STP X19, X20, [ SP, -16 ]!\n    LDP X9, X10, [ SP ], 16\n    LDP X11, X12, [ SP ], 16\n    MOVZ X0, 0, LSL 0\n    RET",
            li(5, 111),
            li(6, 222)
        )))
        .unwrap();
        let c = cfg();
        let mut m = Machine::new(&p, &[], &c);
        let entry = m.entry_sp;
        let (end, viol) = m.exec(&c);
        assert!(viol.is_none(), "{:?}", viol.map(|v| v.msg));
        assert_eq!(end, Ok(0));
        // first register at the lower address, second at +8
        assert_eq!((m.get(7), m.get(8)), ((111, true), (222, true)));
        assert_eq!((m.get(11), m.get(12)), ((111, true), (222, true)));
        // values and poison of the callee-saved registers travel through memory
        assert_eq!(m.get(9), (CALLEE_SENTINEL, false));
        assert_eq!(m.get(10), (CALLEE_SENTINEL + 1, false));
        assert_eq!(m.get(SP), (entry, true));
        assert_eq!(m.stack.words[m.stack.idx(entry - 16)], 111);
        assert_eq!(m.stack.words[m.stack.idx(entry - 8)], 222);
        // popping more than was pushed reads the caller's frame
        let v = violation("    LDP X5, X6, [ SP ], 16\n    RET");
        assert_eq!(v.kind, ViolationKind::OutOfBounds);
    }

    #[test]
    fn ldr_str_offsets_heap_and_stack() {
        // X0 = heap pointer at entry
        let body = format!(
            "{}    MOV X4, X0\n    STR X5, [ X4, 56 ]\n    STR XZR, [ X4, 48 ]\n    LDR X6, [ X4, 56 ]\n    LDR X7, [ X4, 48 ]\n    ADD X8, X4, 16\n    LDR X9, [ X8, 40 ]\n    ADD X0, X6, X9\n    ADD X0, X0, X7\n    RET",
            li(5, 21)
        );
        assert_eq!(result(&body), 42);
        // spill slots: SP-relative, within the reserved area
        let body = format!("{}    SUB SP, SP, 2048\n    STR X5, [ SP, 2040 ]\n    STR X5, [ SP, 0 ]\n    LDR X0, [ SP, 2040 ]\n    ADD SP, SP, 2048\n    RET", li(5, 9));
        assert_eq!(result(&body), 9);
        // uninitialised stack memory is poison: loading is fine, returning it is not
        let v = violation("    SUB SP, SP, 2048\n    LDR X0, [ SP, 8 ]\n    ADD SP, SP, 2048\n    RET");
        assert_eq!(v.kind, ViolationKind::Poison);
        // bounds: below SP, the caller's frame, far outside, just beyond the heap
        assert_eq!(violation("    SUB X5, SP, 8\n    LDR X6, [ X5, 0 ]\n    RET").kind, ViolationKind::OutOfBounds);
        assert_eq!(violation("    STR XZR, [ SP, 0 ]\n    RET").kind, ViolationKind::OutOfBounds);
        assert_eq!(violation("    MOVZ X5, 64, LSL 0\n    LDR X6, [ X5, 0 ]\n    RET").kind, ViolationKind::OutOfBounds);
        assert_eq!(violation("    LDR X6, [ X0, 4 ]\n    RET").kind, ViolationKind::OutOfBounds);
        let r = run_body("    MOVZ X5, 1, LSL 16\n    ADD X5, X5, X0\n    LDR X6, [ X5, 0 ]\n    RET", &[]);
        assert!(r.violation.is_none());
        assert_eq!(r.outcome.end, Err(Undefined::Heap));
        // address from an undefined register
        assert_eq!(violation("    LDR X6, [ X9, 0 ]\n    RET").kind, ViolationKind::Poison);
    }

    #[test]
    fn adr_br_jump_table() {
        let table = |tag: i64| {
            format!(
                "    MOVZ X7, {tag}, LSL 0\n    ADR X2, tab\n    ADD X2, X2, X7\n    BR X2\n\ntab:\n    B c0\n    B c1\n    B c2\n\nc0:\n    MOVZ X0, 10, LSL 0\n    RET\n\nc1:\n    MOVZ X0, 11, LSL 0\n    RET\n\nc2:\n    // @verif stmt=lit n=0 env=[]\n    MOVZ X0, 12, LSL 0\n    RET"
            )
        };
        assert_eq!(result(&table(0)), 10);
        assert_eq!(result(&table(4)), 11);
        assert_eq!(result(&table(8)), 12);
        // not an instruction start
        assert_eq!(violation(&table(2)).kind, ViolationKind::WildJump);
        assert_eq!(violation(&table(4000)).kind, ViolationKind::WildJump);
        // a direct BR to a label whose first item is a marker executes the marker
        let r = run_body("    ADR X2, c\n    BR X2\n\nc:\n    // @verif stmt=lit n=0 env=[]\n    // lit x <- 1;\n    MOVZ X0, 1, LSL 0\n    RET", &[]);
        assert_eq!(r.outcome.end, Ok(1));
        assert_eq!(r.stats.markers, 1);
        // addresses: 4 bytes per instruction, markers and labels none
        let p = parse(&wrap(&table(0))).unwrap();
        assert_eq!(p.addr[p.labels["tab"]], CODE_BASE + 16);
        assert_eq!(p.addr[p.labels["c2"]], CODE_BASE + 16 + 12 + 16);
        assert_eq!(violation("    BR X9").kind, ViolationKind::Poison);
    }

    #[test]
    fn arguments_and_entry_state() {
        let r = run_body("    ADD X0, X1, X2\n    ADD X0, X0, X7\n    RET", &[1, 2, 3, 4, 5, 6, 70]);
        assert_eq!(r.outcome.end, Ok(73));
        // registers not carrying an argument are undefined at entry
        let r = run_body("    MOV X0, X3\n    RET", &[1, 2]);
        assert_eq!(r.violation.unwrap().kind, ViolationKind::Poison);
        // heap pointer
        assert_eq!(result("    RET"), HEAP_BASE as i64);
    }

    #[test]
    fn external_call_clobbers_and_abi() {
        let r = run_body(&format!("{}    MOV X0, X5\n    BL print_i64\n    MOV X0, X5\n    BL println_i64\n    MOVZ X0, 3, LSL 0\n    RET", li(5, -12)), &[]);
        // X5 does not survive the first call
        let v = r.violation.unwrap();
        assert_eq!(v.kind, ViolationKind::Poison);
        assert!(v.msg.contains(CLOBBER_NOTE), "{}", v.msg);
        assert_eq!(r.outcome.prints, vec![PrintEv { value: -12, newline: false }]);
        // callee-saved registers and the saved link register do
        let body = format!(
            "    STP X19, X30, [ SP, -16 ]!\n{}    MOV X0, X19\n    BL println_i64\n    MOV X0, X19\n    BL print_i64\n    MOV X0, X19\n    LDP X19, X30, [ SP ], 16\n    RET",
            li(19, 77)
        );
        let r = run_body(&body, &[]);
        assert!(r.violation.is_none(), "{:?}", r.violation.map(|v| v.msg));
        assert_eq!(r.outcome.end, Ok(77));
        assert_eq!(r.outcome.prints, vec![PrintEv { value: 77, newline: true }, PrintEv { value: 77, newline: false }]);
        assert_eq!(r.stats.ext_calls, 2);
        // the link register is gone after a call unless saved
        let v = violation("    MOVZ X0, 1, LSL 0\n    BL print_i64\n    MOVZ X0, 1, LSL 0\n    RET");
        assert_eq!(v.kind, ViolationKind::Abi);
        assert!(v.msg.contains(CLOBBER_NOTE));
        // stack below SP is dead after a call; flags too
        let v = violation("    MOVZ X0, 1, LSL 0\n    CMP X0, 1\n    BL print_i64\n    BEQ l\nl:\n    RET");
        assert_eq!(v.kind, ViolationKind::Poison);
        assert!(v.msg.contains(CLOBBER_NOTE));
        // alignment of SP at the call and at SP-relative accesses
        assert_eq!(violation("    SUB SP, SP, 8\n    MOVZ X0, 1, LSL 0\n    BL print_i64\n    RET").kind, ViolationKind::Abi);
        assert_eq!(violation("    SUB SP, SP, 8\n    STR XZR, [ SP, 0 ]\n    RET").kind, ViolationKind::Abi);
        // undefined argument
        assert_eq!(violation("    MOV X0, X9\n    BL print_i64\n    RET").kind, ViolationKind::Poison);
        assert_eq!(violation("    BL exit\n    RET").kind, ViolationKind::WildJump);
    }

    #[test]
    fn return_checks() {
        assert_eq!(violation("    SUB SP, SP, 16\n    RET").kind, ViolationKind::Abi);
        assert_eq!(violation("    MOVZ X21, 1, LSL 0\n    RET").kind, ViolationKind::Abi);
        assert_eq!(violation("    MOVZ X30, 1, LSL 0\n    RET").kind, ViolationKind::Abi);
        assert_eq!(violation("    MOV X0, X19\n    RET").kind, ViolationKind::Poison);
        let v = violation("    MOVZ X0, 1, LSL 0\n    B nowhere");
        assert_eq!(v.kind, ViolationKind::WildJump);
        let v = violation("    MOVZ X0, 1, LSL 0");
        assert_eq!(v.kind, ViolationKind::WildJump);
        let r = run_body("l:\n    B l", &[]);
        assert_eq!(r.outcome.end, Err(Undefined::Fuel));
    }

    #[test]
    fn parser_accepts_only_printed_forms() {
        for bad in [
            "    CBZ X0, l",
            "    ADD X0, X1",
            "    ADD X0, X1, #4",
            "    LDR X0, [ X1 ]",
            "    STP X0, X1, [ SP, -16 ]",
            "    LDP X0, X1, [ SP, 16 ]",
            "    MOVZ X0, 1",
            "    MOV X0, 1",
            "    MOV W0, W1",
            "    ADD X31, X1, X2",
            "    RET X30",
            "    movz X0, 1, LSL 0",
            "    B.EQ l",
        ] {
            let e = parse(&wrap(bad)).err().unwrap_or_else(|| panic!("accepted {bad}"));
            assert!(e.starts_with("line 5: unknown instruction form: "), "{e}");
        }
        assert!(parse(".text\nmain:\n    RET\n").is_err()); // no asm_main
        assert!(parse(&wrap("    // @verif stmt=lit n=x env=[]\n    RET")).unwrap_err().contains("malformed marker"));
        let p = parse(&wrap("    // setup\n    // @verif stmt=lit n=2 env=[a:ext,b:prd]\n    RET")).unwrap();
        assert_eq!(p.ins.len(), 2);
        assert!(matches!(&p.ins[0], Ins::Marker(m) if m.kind == "lit" && m.stored == 2 && m.env.len() == 2));
    }

    #[test]
    fn unencodable_operands() {
        assert_eq!(violation("    ADD X0, X0, 5000\n    RET").kind, ViolationKind::Unencodable);
        assert_eq!(violation("    ADD X0, X0, -1\n    RET").kind, ViolationKind::Unencodable);
        assert_eq!(violation("    CMP X0, 4096000000\n    RET").kind, ViolationKind::Unencodable);
        assert_eq!(violation("    MOVZ X0, 65536, LSL 0\n    RET").kind, ViolationKind::Unencodable);
        assert_eq!(violation("    MOVZ X0, 1, LSL 8\n    RET").kind, ViolationKind::Unencodable);
        assert_eq!(violation("    LDR X5, [ X0, 32768 ]\n    RET").kind, ViolationKind::Unencodable);
        assert_eq!(violation("    STP X5, X6, [ SP, -520 ]!\n    RET").kind, ViolationKind::Unencodable);
        assert_eq!(violation("    MUL X0, SP, X0\n    RET").kind, ViolationKind::Unencodable);
        assert_eq!(violation("    ADD X0, XZR, 1\n    RET").kind, ViolationKind::Unencodable);
        // shifted 12-bit immediate is fine
        assert_eq!(result("    MOVZ X0, 0, LSL 0\n    ADD X0, X0, 8192\n    RET"), 8192);
    }

    #[test]
    fn whole_routine_with_heap_monitor() {
        // prologue / epilogue of into_routine.rs around a one-block allocation and release
        let text = "\
.text
.global asm_main

asm_main:
    // setup
    STP X19, X20, [ SP, -16 ]!
    STP X21, X22, [ SP, -16 ]!
    STP X23, X24, [ SP, -16 ]!
    STP X25, X26, [ SP, -16 ]!
    STP X27, X28, [ SP, -16 ]!
    STP X29, X30, [ SP, -16 ]!
    SUB SP, SP, 2048
    MOV X5, X1
    MOV X1, X0
    ADD X1, X1, 64

main_:
    // @verif stmt=let n=1 env=[a:ext]
    STR X5, [ X0, 56 ]
    STR XZR, [ X0, 48 ]
    STR XZR, [ X0, 32 ]
    STR XZR, [ X0, 16 ]
    MOV X4, X0
    LDR X0, [ X0, 0 ]
    CMP X0, 0
    BEQ lab1
    STR XZR, [ X4, 0 ]
    B lab2

lab1:
    MOV X0, X1
    LDR X1, [ X1, 0 ]
    CMP X1, 0
    BEQ lab3
    B lab2

lab3:
    ADD X1, X0, 64

lab2:
    // @verif stmt=switch n=0 env=[b:prd]
    LDR X7, [ X4, 56 ]
    STR X0, [ X4, 0 ]
    MOV X0, X4
    MOV X5, X7
    // @verif stmt=exit n=0 env=[a:ext]
    MOV X0, X5
    B cleanup

cleanup:
    ADD SP, SP, 2048
    LDP X29, X30, [ SP ], 16
    LDP X27, X28, [ SP ], 16
    LDP X25, X26, [ SP ], 16
    LDP X23, X24, [ SP ], 16
    LDP X21, X22, [ SP ], 16
    LDP X19, X20, [ SP ], 16
    RET
";
        let p = parse(text).unwrap();
        let r = run(&p, &[5], &EmuConfig { heap_bytes: 1 << 16, ..Default::default() });
        assert!(r.violation.is_none(), "{:?}", r.violation.map(|v| v.msg));
        assert_eq!(r.outcome.end, Ok(5));
        assert_eq!(r.stats.markers, 3);
        assert_eq!(r.stats.heap_walks, 3);
        // dropping the pointer without releasing the block is seen by the monitor
        let leaky = text.replace("    STR X0, [ X4, 0 ]\n    MOV X0, X4\n", "");
        let p = parse(&leaky).unwrap();
        let r = run(&p, &[5], &EmuConfig { heap_bytes: 1 << 16, ..Default::default() });
        assert_eq!(r.violation.unwrap().kind, ViolationKind::Heap);
    }
}
