//! Type-directed generator of well-typed Fun programs (well-typed by construction: the generator
//! keeps its own typing environment and never asks the compiler's checker).

use crate::apr::*;
use crate::rng::Rng;
use std::collections::{HashMap, HashSet};

#[derive(Clone, Copy, Debug, PartialEq, Eq)]
pub enum NamePolicy {
    Unique,
    Colliding,
    Hostile,
}

#[derive(Clone, Copy, Debug, PartialEq, Eq)]
pub enum EffectMode {
    /// every call/ctor/dtor/operator argument, if operand and codata binding is pure
    PureArgs,
    /// effects anywhere except that in `t.d(args)` not both t and args are effectful
    Sequenced,
    /// no restriction
    Anywhere,
}

#[derive(Clone, Debug)]
pub struct Profile {
    pub naming: NamePolicy,
    pub effects: EffectMode,
    pub n_data: usize,
    pub n_codata: usize,
    pub n_defs: usize,
    pub budget: usize,
    pub many_params: bool,
    pub big_xtors: bool,
    pub control: u32,   // weight of label/goto/exit
    pub prints: u32,    // weight of print
    pub boundary_lits: bool,
    pub main_args: usize,
    pub cns_fields: bool,
    pub poly: bool,
    /// long type / constructor / destructor names (printed types wider than any layout width)
    pub long_names: bool,
    /// object-typed positions are often filled by a jump (`exit n`) instead of a value, so that some
    /// type instances are mentioned by declarations only
    pub jumpy: bool,
    /// recursion depth of definitions: small literals, or up to 40 iterations (longer runs, more
    /// allocation and release per execution)
    pub deep_fuel: bool,
}

impl Profile {
    pub fn random(rng: &mut Rng, effects: EffectMode) -> Profile {
        let naming = match rng.below(10) {
            0..=3 => NamePolicy::Colliding,
            4..=5 => NamePolicy::Hostile,
            _ => NamePolicy::Unique,
        };
        Profile {
            naming,
            effects,
            n_data: 1 + rng.below(3),
            n_codata: rng.below(3),
            n_defs: 1 + rng.below(5),
            budget: [6, 10, 16, 24, 40][rng.below(5)],
            many_params: rng.chance(1, 6),
            big_xtors: rng.chance(1, 5),
            control: [0, 1, 3, 6][rng.below(4)],
            prints: [1, 3, 6][rng.below(3)],
            boundary_lits: rng.chance(1, 4),
            main_args: rng.below(6),
            cns_fields: rng.chance(1, 5),
            poly: rng.chance(3, 4),
            long_names: rng.chance(1, 8),
            jumpy: rng.chance(1, 6),
            deep_fuel: rng.chance(1, 5),
        }
    }
    pub fn describe(&self) -> String {
        format!(
            "naming={:?} effects={:?} data={} codata={} defs={} budget={} many_params={} big={} control={} prints={} boundary={} main_args={} cns_fields={} poly={} long_names={} jumpy={} deep_fuel={}",
            self.naming, self.effects, self.n_data, self.n_codata, self.n_defs, self.budget, self.many_params, self.big_xtors, self.control, self.prints, self.boundary_lits, self.main_args, self.cns_fields, self.poly, self.long_names, self.jumpy, self.deep_fuel
        )
    }
}

const KEYWORDS: &[&str] = &[
    "label", "goto", "exit", "if", "else", "print_i64", "println_i64", "let", "case", "new", "def", "data", "codata", "i64", "cns",
];

struct DefSig {
    rank: usize,
    fuel: Option<usize>,
}

#[derive(Clone)]
struct Ctx {
    scope: Vec<usize>,
    cur: usize,
    allow_self: bool,
    pure: bool,
    depth: usize,
}

pub struct Gen<'r> {
    pub rng: &'r mut Rng,
    pub p: Prog,
    pub prof: Profile,
    sigs: Vec<DefSig>,
    pool: Vec<Ty>,
    dflt: HashMap<usize, usize>,
    used_def_names: HashSet<String>,
    pub features: HashMap<&'static str, u64>,
}

pub fn generate(rng: &mut Rng, prof: Profile) -> (Prog, HashMap<&'static str, u64>) {
    let mut g = Gen {
        rng,
        p: Prog::default(),
        prof,
        sigs: Vec::new(),
        pool: vec![Ty::I64],
        dflt: HashMap::new(),
        used_def_names: HashSet::new(),
        features: HashMap::new(),
    };
    g.templates();
    g.make_pool();
    g.signatures();
    g.bodies();
    (g.p, g.features)
}

impl<'r> Gen<'r> {
    fn feat(&mut self, k: &'static str) {
        *self.features.entry(k).or_insert(0) += 1;
    }

    // ---------------------------------------------------------------- declarations

    fn templates(&mut self) {
        let data_names = ["List", "Pair", "Opt", "Tree", "Either", "Box3"];
        let codata_names = ["Fun", "Stream", "LPair", "Obj", "Cont2"];
        let hostile_types = ["A_1", "List_i64", "Ret_", "X0", "Lab1", "Main_"];
        let ctor_names = ["Nil", "Cons", "Tup", "None", "Some", "Leaf", "Node", "Left", "Right", "Mk", "K1", "K2", "K3", "K4", "K5", "K6"];
        let hostile_ctors = ["Ret", "Cons_1", "B_2", "Nil_", "X0"];
        let dtor_names = ["apply", "head", "tail", "fst", "snd", "get", "run", "d1", "d2", "d3", "d4", "d5"];
        let hostile_dtors = ["x0", "a0", "ret", "main", "lab1", "cleanup"];
        let mut used_types: HashSet<String> = HashSet::new();
        let mut used_ctors: HashSet<String> = HashSet::new();
        let mut used_dtors: HashSet<String> = HashSet::new();
        let hostile = self.prof.naming == NamePolicy::Hostile;
        let n = self.prof.n_data + self.prof.n_codata;
        // decide polarity order randomly but make sure a data type comes first (base cases)
        let mut kinds: Vec<bool> = Vec::new();
        for _ in 0..self.prof.n_data {
            kinds.push(true);
        }
        for _ in 0..self.prof.n_codata {
            kinds.push(false);
        }
        if kinds.len() > 1 {
            let tail = &mut kinds[1..];
            self.rng.shuffle(tail);
        }
        for ti in 0..n {
            let is_data = kinds[ti];
            let name = loop {
                let cand = if hostile && self.rng.chance(1, 3) {
                    self.rng.pick(&hostile_types).to_string()
                } else if is_data {
                    self.rng.pick(&data_names).to_string()
                } else {
                    self.rng.pick(&codata_names).to_string()
                };
                let cand = if used_types.contains(&cand) { format!("{cand}{}", used_types.len()) } else { cand };
                if !used_types.contains(&cand) && cand != "A" && cand != "B" {
                    break cand;
                }
            };
            let name = if self.prof.long_names && self.rng.chance(3, 4) {
                let n = 8 + self.rng.below(45);
                format!("{name}_{}", "abcdefghijklmnopqrstuvwxyz0123456789".chars().cycle().skip(self.rng.below(26)).take(n).collect::<String>())
            } else {
                name
            };
            // the suffix may reproduce an earlier long name
            let name = if used_types.contains(&name) { format!("{name}_{}", used_types.len()) } else { name };
            used_types.insert(name.clone());
            let nparams = if self.prof.poly { [0, 1, 1, 2][self.rng.below(4)] } else { 0 };
            let params: Vec<String> = ["A", "B"][..nparams].iter().map(|s| s.to_string()).collect();
            let max_fields = if self.prof.big_xtors { 8 } else { 3 };
            let nx = if is_data { 1 + self.rng.below(if self.prof.big_xtors { 5 } else { 3 }) } else { 1 + self.rng.below(3) };
            let mut xtors = Vec::new();
            for xi in 0..nx {
                let xname = loop {
                    let cand = if is_data {
                        if hostile && self.rng.chance(1, 3) { self.rng.pick(&hostile_ctors).to_string() } else { self.rng.pick(&ctor_names).to_string() }
                    } else if hostile && self.rng.chance(1, 3) {
                        self.rng.pick(&hostile_dtors).to_string()
                    } else {
                        self.rng.pick(&dtor_names).to_string()
                    };
                    let set = if is_data { &used_ctors } else { &used_dtors };
                    let cand = if set.contains(&cand) { format!("{cand}{}", set.len()) } else { cand };
                    if !set.contains(&cand) && !KEYWORDS.contains(&cand.as_str()) && !used_types.contains(&cand) {
                        break cand;
                    }
                };
                let xname = if self.prof.long_names && self.rng.chance(1, 3) {
                    let n = 8 + self.rng.below(40);
                    format!("{xname}_{}", "zyxwvutsrqponmlkjihgfedcba".chars().cycle().skip(self.rng.below(26)).take(n).collect::<String>())
                } else {
                    xname
                };
                let xname = {
                    let set = if is_data { &used_ctors } else { &used_dtors };
                    if set.contains(&xname) || used_types.contains(&xname) { format!("{xname}_{}", set.len() + used_types.len()) } else { xname }
                };
                if is_data { used_ctors.insert(xname.clone()); } else { used_dtors.insert(xname.clone()); }
                let base = is_data && xi == 0;
                let nf = if base { self.rng.below(3) } else { self.rng.below(max_fields + 1) };
                let mut fields = Vec::new();
                for fi in 0..nf {
                    let ty = self.field_ty(ti, nparams, base, is_data);
                    // consumer fields only of integer or parameter type to keep things inhabited
                    let cns = !base && self.prof.cns_fields && self.rng.chance(1, 6);
                    fields.push(FieldT { name: format!("f{fi}"), cns, ty });
                }
                let ret = if is_data { TyT::I64 } else { self.field_ty(ti, nparams, false, false) };
                xtors.push(XtorT { name: xname, fields, ret });
            }
            self.p.templates.push(Template { name, is_data, params, xtors });
        }
    }

    /// a type usable inside template `ti` (only refers to itself with the same parameters and to
    /// earlier templates, so the set of instances stays finite)
    fn field_ty(&mut self, ti: usize, nparams: usize, base: bool, _is_data: bool) -> TyT {
        let r = self.rng.below(10);
        if base {
            return if nparams > 0 && r < 4 { TyT::Param(self.rng.below(nparams)) } else { TyT::I64 };
        }
        match r {
            0..=3 => TyT::I64,
            4..=5 if nparams > 0 => TyT::Param(self.rng.below(nparams)),
            6..=7 => TyT::App(ti, (0..nparams).map(TyT::Param).collect()),
            _ if ti > 0 => {
                let other = self.rng.below(ti);
                let np = self.p.templates[other].params.len();
                let mut args = Vec::new();
                for _ in 0..np {
                    let flat = |g: &mut Self| if nparams > 0 && g.rng.chance(1, 2) { TyT::Param(g.rng.below(nparams)) } else { TyT::I64 };
                    // one argument in four is itself an applied template: an earlier one at flat
                    // arguments or the template being declared at its own parameters (`List[Rose[A]]`);
                    // the set of instances stays finite
                    let a = if self.rng.chance(1, 4) {
                        if self.rng.chance(1, 2) {
                            TyT::App(ti, (0..nparams).map(TyT::Param).collect())
                        } else {
                            let inner = self.rng.below(ti);
                            let ni = self.p.templates[inner].params.len();
                            let mut ia = Vec::new();
                            for _ in 0..ni {
                                ia.push(flat(self));
                            }
                            TyT::App(inner, ia)
                        }
                    } else {
                        flat(self)
                    };
                    args.push(a);
                }
                TyT::App(other, args)
            }
            _ => TyT::I64,
        }
    }

    fn make_pool(&mut self) {
        let nt = self.p.templates.len();
        // first round: instantiate every template at i64
        for t in 0..nt {
            let np = self.p.templates[t].params.len();
            let i = self.p.instantiate(t, vec![Ty::I64; np]);
            self.pool.push(Ty::Inst(i));
        }
        // second round: a few nested instances
        let rounds = if self.prof.long_names { 2 + self.rng.below(4) } else { self.rng.below(3) };
        for _ in 0..rounds {
            let t = self.rng.below(nt);
            let np = self.p.templates[t].params.len();
            if np == 0 {
                continue;
            }
            let args: Vec<Ty> = (0..np).map(|_| *self.rng.pick(&self.pool)).collect();
            // avoid unbounded nesting: arguments must be first-round types
            if args.iter().all(|a| match a { Ty::I64 => true, Ty::Inst(i) => self.p.insts[*i].args.iter().all(|x| *x == Ty::I64) }) {
                let i = self.p.instantiate(t, args);
                if !self.pool.contains(&Ty::Inst(i)) {
                    self.pool.push(Ty::Inst(i));
                }
            }
        }
    }

    fn pool_ty(&mut self) -> Ty {
        if self.rng.chance(1, 2) { Ty::I64 } else { *self.rng.pick(&self.pool) }
    }

    // ---------------------------------------------------------------- names

    fn var_name(&mut self, avoid: &[String], cns: bool) -> String {
        let pool_collide = ["x", "y", "z", "a"];
        let pool_hostile = ["x0", "x1", "x2", "a0", "a1", "a2", "x", "a", "share_f_0", "lift_main__7", "lab1", "cleanup", "asm_main", "main_", "ret"];
        for _ in 0..64 {
            let cand = match self.prof.naming {
                NamePolicy::Unique => format!("{}{}", if cns { "k" } else { "v" }, self.p.binders.len()),
                NamePolicy::Colliding => self.rng.pick(&pool_collide).to_string(),
                NamePolicy::Hostile => {
                    if self.rng.chance(2, 3) { self.rng.pick(&pool_hostile).to_string() } else { self.rng.pick(&pool_collide).to_string() }
                }
            };
            if !avoid.contains(&cand) {
                return cand;
            }
        }
        format!("w{}", self.p.binders.len())
    }

    fn new_binder(&mut self, ty: Ty, cns: bool, avoid: &[String]) -> usize {
        let name = self.var_name(avoid, cns);
        self.p.binders.push(Binder { name, ty, cns });
        self.p.binders.len() - 1
    }

    fn def_name(&mut self) -> String {
        let normal = ["f", "g", "h", "go", "loop_", "aux", "mk", "step", "fold", "helper"];
        let hostile = ["share_main_0", "share_f_0", "share_main_1", "lift_main__1", "lift_f__2", "lab1", "lab2", "cleanup", "asm_main", "main_", "x0", "a0", "f_", "ret"];
        loop {
            let cand = if self.prof.naming == NamePolicy::Hostile && self.rng.chance(1, 2) {
                self.rng.pick(&hostile).to_string()
            } else {
                self.rng.pick(&normal).to_string()
            };
            let cand = if self.used_def_names.contains(&cand) { format!("{cand}{}", self.used_def_names.len()) } else { cand };
            if !self.used_def_names.contains(&cand) && cand != "main" {
                self.used_def_names.insert(cand.clone());
                return cand;
            }
        }
    }

    // ---------------------------------------------------------------- signatures

    fn signatures(&mut self) {
        // main first
        let mut names: Vec<String> = Vec::new();
        let mut params = Vec::new();
        for _ in 0..self.prof.main_args {
            let b = self.new_binder(Ty::I64, false, &names);
            names.push(self.p.binders[b].name.clone());
            params.push(b);
        }
        self.used_def_names.insert("main".into());
        self.p.defs.push(Def { name: "main".into(), params, ret: Ty::I64, body: T::Lit(0) });
        self.sigs.push(DefSig { rank: 0, fuel: None });
        self.p.main = 0;
        for i in 0..self.prof.n_defs {
            let name = self.def_name();
            let recursive = self.rng.chance(1, 2);
            let mut names: Vec<String> = Vec::new();
            let mut params = Vec::new();
            let mut fuel = None;
            if recursive {
                let b = self.new_binder(Ty::I64, false, &names);
                names.push(self.p.binders[b].name.clone());
                params.push(b);
                fuel = Some(b);
            }
            let np = if self.prof.many_params && self.rng.chance(1, 2) { 6 + self.rng.below(15) } else { self.rng.below(4) };
            for _ in 0..np {
                let ty = if self.prof.many_params { if self.rng.chance(2, 3) { Ty::I64 } else { self.pool_ty() } } else { self.pool_ty() };
                let b = self.new_binder(ty, false, &names);
                names.push(self.p.binders[b].name.clone());
                params.push(b);
            }
            let ret = self.pool_ty();
            // occasionally a consumer parameter (of the return type, so callers can use `label`)
            if self.prof.control > 0 && self.rng.chance(1, 4) {
                let b = self.new_binder(ret, true, &names);
                names.push(self.p.binders[b].name.clone());
                params.push(b);
            }
            self.p.defs.push(Def { name, params, ret, body: T::Lit(0) });
            self.sigs.push(DefSig { rank: i + 1, fuel });
        }
    }

    // ---------------------------------------------------------------- bodies

    fn bodies(&mut self) {
        let n = self.p.defs.len();
        for d in 0..n {
            let scope = self.p.defs[d].params.clone();
            let ret = self.p.defs[d].ret;
            let budget = self.prof.budget;
            let ctx = Ctx { scope: scope.clone(), cur: d, allow_self: false, pure: false, depth: 0 };
            let body = match self.sigs[d].fuel {
                Some(fb) => {
                    // if fuel <= 0 { base } else { recursive part }
                    let base = self.term(ret, budget / 3 + 1, &ctx);
                    let ctx2 = Ctx { allow_self: true, ..ctx.clone() };
                    let rec = self.term(ret, budget, &ctx2);
                    let zero_left = self.rng.chance(1, 4);
                    T::If { cmp: Cmp::Le, fst: Box::new(T::Var(fb)), snd: None, zero_left, thn: Box::new(base), els: Box::new(rec) }
                }
                None => {
                    let inner = self.term(ret, budget, &ctx);
                    if self.prof.many_params && ret == Ty::I64 && scope.len() > 5 {
                        // keep every integer parameter live across the inner computation
                        self.feat("keep_live");
                        let r = self.new_binder(Ty::I64, false, &[]);
                        let mut sum = T::Var(r);
                        let mut sc = scope.clone();
                        sc.push(r);
                        for &b in &scope {
                            if self.p.binders[b].ty == Ty::I64 && !self.p.binders[b].cns && self.visible(&sc, b) {
                                sum = T::Op(Box::new(sum), BinOp::Add, Box::new(T::Var(b)));
                            }
                        }
                        T::Let { b: r, bound: Box::new(inner), body: Box::new(sum) }
                    } else {
                        inner
                    }
                }
            };
            self.p.defs[d].body = body;
        }
        // default definitions may have been appended while generating; their bodies are complete
    }

    fn visible(&self, scope: &[usize], b: usize) -> bool {
        let name = &self.p.binders[b].name;
        let mut seen = false;
        for &x in scope.iter().rev() {
            if x == b {
                return !seen;
            }
            if &self.p.binders[x].name == name {
                seen = true;
            }
        }
        false
    }

    fn visible_of(&self, scope: &[usize], ty: Option<Ty>, cns: bool) -> Vec<usize> {
        let mut seen: HashSet<&str> = HashSet::new();
        let mut out = Vec::new();
        for &x in scope.iter().rev() {
            let bi = &self.p.binders[x];
            if seen.insert(bi.name.as_str()) && bi.cns == cns && ty.is_none_or(|t| t == bi.ty) {
                out.push(x);
            }
        }
        out
    }

    fn lit(&mut self) -> T {
        let v = if self.prof.boundary_lits { self.rng.small_i64() } else { self.rng.range(-9, 20) };
        T::Lit(if v == i64::MIN { i64::MIN + 1 } else { v })
    }

    /// default (lazy, total) inhabitant of a codata instance: `dflt_T()`
    fn dflt_def(&mut self, inst: usize) -> usize {
        if let Some(d) = self.dflt.get(&inst) {
            return *d;
        }
        let idx = self.p.defs.len();
        let name = format!("dflt{}_{}", inst, self.p.templates[self.p.insts[inst].tmpl].name.to_lowercase());
        self.used_def_names.insert(name.clone());
        self.p.defs.push(Def { name, params: vec![], ret: Ty::Inst(inst), body: T::Lit(0) });
        self.sigs.push(DefSig { rank: usize::MAX, fuel: None });
        self.dflt.insert(inst, idx);
        let ctx = Ctx { scope: vec![], cur: idx, allow_self: false, pure: true, depth: 0 };
        let body = self.leaf_new(inst, &ctx);
        self.p.defs[idx].body = body;
        idx
    }

    fn leaf_new(&mut self, inst: usize, ctx: &Ctx) -> T {
        let nx = self.p.insts[inst].xtors.len();
        let mut clauses = Vec::new();
        for xi in 0..nx {
            let x = self.p.insts[inst].xtors[xi].clone();
            let mut names = Vec::new();
            let mut binders = Vec::new();
            for (cns, ty) in &x.fields {
                let b = self.new_binder(*ty, *cns, &names);
                names.push(self.p.binders[b].name.clone());
                binders.push(b);
            }
            let mut c2 = ctx.clone();
            c2.scope.extend(binders.iter().cloned());
            c2.depth += 1;
            // clause bodies are not evaluated when the object is created
            c2.pure = false;
            let body = self.leaf(x.ret, &c2);
            clauses.push(ClauseA { binders, body });
        }
        let mut order: Vec<usize> = (0..nx).collect();
        self.rng.shuffle(&mut order);
        T::New { inst, clauses, order }
    }

    fn leaf(&mut self, ty: Ty, ctx: &Ctx) -> T {
        if ctx.pure {
            return self.leaf_pure(ty, ctx);
        }
        let vars = self.visible_of(&ctx.scope, Some(ty), false);
        if !vars.is_empty() && self.rng.chance(3, 4) {
            return T::Var(*self.rng.pick(&vars));
        }
        match ty {
            Ty::I64 => self.lit(),
            Ty::Inst(i) => {
                if self.p.is_data(ty) {
                    let x = self.p.insts[i].xtors[0].clone();
                    let args = x.fields.iter().map(|(_, t)| Arg::T(self.leaf(*t, ctx))).collect();
                    T::Ctor { inst: i, idx: 0, args }
                } else if ctx.depth < 2 && self.rng.chance(1, 2) {
                    self.leaf_new(i, ctx)
                } else {
                    let d = self.dflt_def(i);
                    T::Call { def: d, args: vec![] }
                }
            }
        }
    }

    fn split(&mut self, budget: usize, n: usize) -> Vec<usize> {
        let mut parts = vec![1usize; n];
        let mut rest = budget.saturating_sub(n);
        while rest > 0 {
            let chunk = 1 + self.rng.below(rest.min(4));
            let i = self.rng.below(n);
            parts[i] += chunk;
            rest -= chunk;
        }
        parts
    }

    fn arg_ctx(&self, ctx: &Ctx) -> Ctx {
        let mut c = ctx.clone();
        if self.prof.effects == EffectMode::PureArgs {
            c.pure = true;
        }
        c
    }

    /// arguments for a parameter list; None if a consumer parameter cannot be supplied
    fn gen_args(&mut self, sig: &[(bool, Ty)], budget: usize, ctx: &Ctx, force_pure: bool) -> Option<Vec<Arg>> {
        let n = sig.len();
        let parts = if n > 0 { self.split(budget.max(n), n) } else { vec![] };
        let mut out = Vec::new();
        for (i, (cns, ty)) in sig.iter().enumerate() {
            if *cns {
                let ks = self.visible_of(&ctx.scope, Some(*ty), true);
                if ks.is_empty() {
                    return None;
                }
                out.push(Arg::Covar(*self.rng.pick(&ks)));
            } else {
                let mut c = self.arg_ctx(ctx);
                if force_pure {
                    c.pure = true;
                }
                out.push(Arg::T(self.term(*ty, parts[i], &c)));
            }
        }
        Some(out)
    }

    fn def_sig(&self, d: usize) -> Vec<(bool, Ty)> {
        self.p.defs[d].params.iter().map(|b| (self.p.binders[*b].cns, self.p.binders[*b].ty)).collect()
    }

    pub fn term(&mut self, ty: Ty, budget: usize, ctx: &Ctx) -> T {
        if budget <= 1 || ctx.depth > 12 {
            return self.leaf(ty, ctx);
        }
        let mut ctx = ctx.clone();
        ctx.depth += 1;
        let ctx = &ctx;
        if ctx.pure {
            return self.gen_pure(ty, budget, ctx);
        }
        if self.prof.jumpy && matches!(ty, Ty::Inst(_)) && self.rng.chance(1, 3) {
            let actx = self.arg_ctx(ctx);
            let arg = self.term(Ty::I64, 2, &actx);
            self.feat("exit");
            self.feat("exit_in_object_position");
            return T::Exit(Box::new(arg));
        }
        // candidate forms
        #[derive(Clone, Copy, Debug)]
        enum F {
            Leaf, Let, If, Print, Call, Case, Dtor, Label, Goto, Exit, Op, Ctor, New,
        }
        let control = self.prof.control;
        let mut cands: Vec<(F, u32)> = vec![(F::Leaf, 2), (F::Let, 6), (F::If, 4), (F::Print, self.prof.prints), (F::Case, 4)];
        // calls
        let callable: Vec<usize> = (0..self.p.defs.len())
            .filter(|&d| self.p.defs[d].ret == ty && ((self.sigs[d].rank > self.sigs[ctx.cur].rank && self.sigs[d].rank != usize::MAX) || (d == ctx.cur && ctx.allow_self)))
            .collect();
        if !callable.is_empty() {
            cands.push((F::Call, 8));
        }
        let dtors: Vec<(usize, usize)> = self.dtors_returning(ty);
        if !dtors.is_empty() {
            cands.push((F::Dtor, 6));
        }
        if control > 0 {
            cands.push((F::Label, control));
            if !self.visible_of(&ctx.scope, None, true).is_empty() {
                cands.push((F::Goto, control));
            }
            cands.push((F::Exit, 1));
        }
        match ty {
            Ty::I64 => cands.push((F::Op, 8)),
            Ty::Inst(_) => {
                if self.p.is_data(ty) { cands.push((F::Ctor, 8)) } else { cands.push((F::New, 8)) }
            }
        }
        let ws: Vec<u32> = cands.iter().map(|c| c.1).collect();
        let f = cands[self.rng.weighted(&ws)].0;
        match f {
            F::Leaf => self.leaf(ty, ctx),
            F::Let => {
                let bty = self.pool_ty();
                let parts = self.split(budget - 1, 2);
                let mut bctx = ctx.clone();
                if self.p.is_codata(bty) && self.prof.effects == EffectMode::PureArgs {
                    bctx.pure = true;
                }
                let bound = self.term(bty, parts[0], &bctx);
                let b = self.new_binder(bty, false, &[]);
                let mut c2 = ctx.clone();
                c2.scope.push(b);
                let body = self.term(ty, parts[1], &c2);
                self.feat("let");
                T::Let { b, bound: Box::new(bound), body: Box::new(body) }
            }
            F::If => {
                let parts = self.split(budget - 1, 4);
                let octx = self.arg_ctx(ctx);
                let fst = self.term(Ty::I64, parts[0].min(6), &octx);
                let two = self.rng.chance(2, 3);
                let snd = if two { Some(Box::new(self.term(Ty::I64, parts[1].min(6), &octx))) } else { None };
                let thn = self.term(ty, parts[2], ctx);
                let els = self.term(ty, parts[3], ctx);
                self.feat("if");
                let cmp = *self.rng.pick(&Cmp::ALL);
                let zero_left = self.rng.chance(1, 3);
                T::If { cmp, fst: Box::new(fst), snd, zero_left, thn: Box::new(thn), els: Box::new(els) }
            }
            F::Print => {
                let parts = self.split(budget - 1, 2);
                let actx = self.arg_ctx(ctx);
                let arg = self.term(Ty::I64, parts[0].min(5), &actx);
                let next = self.term(ty, parts[1], ctx);
                self.feat("print");
                let newline = self.rng.chance(1, 2);
                T::Print { newline, arg: Box::new(arg), next: Box::new(next) }
            }
            F::Call => {
                let d = *self.rng.pick(&callable);
                let sig = self.def_sig(d);
                let fuel = self.sigs[d].fuel;
                // a consumer parameter of the call's own type can always be supplied by a label
                let needs_label = sig.iter().any(|(cns, t)| *cns && self.visible_of(&ctx.scope, Some(*t), true).is_empty());
                let mut c2 = ctx.clone();
                let mut label = None;
                if needs_label {
                    let lb = self.new_binder(ty, true, &[]);
                    c2.scope.push(lb);
                    label = Some(lb);
                }
                let Some(mut args) = self.gen_args(&sig, budget - 1, &c2, false) else {
                    return self.leaf(ty, ctx);
                };
                if fuel.is_some() {
                    // first parameter is the fuel: decreasing on self calls, a small literal otherwise
                    let fa = if d == ctx.cur {
                        let fb = self.sigs[ctx.cur].fuel.unwrap();
                        if self.visible(&c2.scope, fb) {
                            T::Op(Box::new(T::Var(fb)), BinOp::Sub, Box::new(T::Lit(1)))
                        } else {
                            T::Lit(0)
                        }
                    } else {
                        T::Lit(if self.prof.deep_fuel { self.rng.range(0, 40) } else { self.rng.range(0, 4) })
                    };
                    args[0] = Arg::T(fa);
                }
                self.feat(if d == ctx.cur { "self_call" } else { "call" });
                let call = T::Call { def: d, args };
                match label {
                    Some(lb) => {
                        self.feat("label_for_cns_arg");
                        T::Label { b: lb, body: Box::new(call) }
                    }
                    None => call,
                }
            }
            F::Case => {
                // pick a data instance, preferring one with a visible variable
                let datas: Vec<usize> = self.pool.iter().filter_map(|t| if let Ty::Inst(i) = t { if self.p.is_data(*t) { Some(*i) } else { None } } else { None }).collect();
                if datas.is_empty() {
                    return self.leaf(ty, ctx);
                }
                let with_var: Vec<usize> = datas.iter().cloned().filter(|i| !self.visible_of(&ctx.scope, Some(Ty::Inst(*i)), false).is_empty()).collect();
                let inst = if !with_var.is_empty() && self.rng.chance(2, 3) { *self.rng.pick(&with_var) } else { *self.rng.pick(&datas) };
                let nx = self.p.insts[inst].xtors.len();
                let parts = self.split(budget - 1, nx + 1);
                let scrut = self.term(Ty::Inst(inst), parts[0].min(8), ctx);
                let mut clauses = Vec::new();
                for xi in 0..nx {
                    let fields = self.p.insts[inst].xtors[xi].fields.clone();
                    let mut names = Vec::new();
                    let mut binders = Vec::new();
                    for (cns, t) in &fields {
                        let b = self.new_binder(*t, *cns, &names);
                        names.push(self.p.binders[b].name.clone());
                        binders.push(b);
                    }
                    let mut c2 = ctx.clone();
                    c2.scope.extend(binders.iter().cloned());
                    let body = self.term(ty, parts[xi + 1], &c2);
                    clauses.push(ClauseA { binders, body });
                }
                let mut order: Vec<usize> = (0..nx).collect();
                self.rng.shuffle(&mut order);
                self.feat("case");
                T::Case { scrut: Box::new(scrut), inst, clauses, order }
            }
            F::Dtor => {
                let (inst, idx) = *self.rng.pick(&dtors);
                let sig = self.p.insts[inst].xtors[idx].fields.clone();
                let parts = self.split(budget - 1, 2);
                // effect discipline for t.d(args)
                let (scrut_pure, args_pure) = match self.prof.effects {
                    EffectMode::Anywhere => (false, false),
                    EffectMode::PureArgs => (false, true),
                    EffectMode::Sequenced => if self.rng.chance(1, 2) { (true, false) } else { (false, true) },
                };
                let mut sctx = ctx.clone();
                sctx.pure = scrut_pure;
                let scrut = self.term(Ty::Inst(inst), parts[0], &sctx);
                let Some(args) = self.gen_args(&sig, parts[1], ctx, args_pure) else {
                    return self.leaf(ty, ctx);
                };
                self.feat("dtor");
                T::Dtor { scrut: Box::new(scrut), inst, idx, args }
            }
            F::Label => {
                let b = self.new_binder(ty, true, &[]);
                let mut c2 = ctx.clone();
                c2.scope.push(b);
                let body = self.term(ty, budget - 1, &c2);
                self.feat("label");
                T::Label { b, body: Box::new(body) }
            }
            F::Goto => {
                let ks = self.visible_of(&ctx.scope, None, true);
                let k = *self.rng.pick(&ks);
                let kty = self.p.binders[k].ty;
                let arg = self.term(kty, budget - 1, ctx);
                self.feat("goto");
                if kty != ty {
                    self.feat("goto_type_differs");
                }
                T::Goto { b: k, arg: Box::new(arg) }
            }
            F::Exit => {
                let actx = self.arg_ctx(ctx);
                let arg = self.term(Ty::I64, (budget - 1).min(4), &actx);
                self.feat("exit");
                T::Exit(Box::new(arg))
            }
            F::Op => self.gen_op(budget, ctx),
            F::Ctor => self.gen_ctor(ty, budget, ctx),
            F::New => self.gen_new(ty, budget, ctx),
        }
    }

    fn dtors_returning(&self, ty: Ty) -> Vec<(usize, usize)> {
        let mut out = Vec::new();
        for (i, inst) in self.p.insts.iter().enumerate() {
            if self.p.templates[inst.tmpl].is_data {
                continue;
            }
            for (xi, x) in inst.xtors.iter().enumerate() {
                if x.ret == ty {
                    out.push((i, xi));
                }
            }
        }
        out
    }

    fn gen_op(&mut self, budget: usize, ctx: &Ctx) -> T {
        let parts = self.split(budget - 1, 2);
        let octx = self.arg_ctx(ctx);
        let a = self.term(Ty::I64, parts[0], &octx);
        let op = if octx.pure { *self.rng.pick(&[BinOp::Add, BinOp::Sub, BinOp::Mul]) } else { *self.rng.pick(&[BinOp::Add, BinOp::Add, BinOp::Sub, BinOp::Sub, BinOp::Mul, BinOp::Mul, BinOp::Div, BinOp::Rem]) };
        let b = match op {
            BinOp::Div | BinOp::Rem if self.rng.chance(4, 5) => {
                let mut d = self.rng.range(-7, 9);
                if d == 0 || d == -1 {
                    d = 3;
                }
                T::Lit(d)
            }
            _ => self.term(Ty::I64, parts[1], &octx),
        };
        self.feat("op");
        T::Op(Box::new(a), op, Box::new(b))
    }

    fn gen_ctor(&mut self, ty: Ty, budget: usize, ctx: &Ctx) -> T {
        let Ty::Inst(inst) = ty else { unreachable!() };
        let nx = self.p.insts[inst].xtors.len();
        let idx = self.rng.below(nx);
        let sig = self.p.insts[inst].xtors[idx].fields.clone();
        match self.gen_args(&sig, budget - 1, ctx, false) {
            Some(args) => {
                self.feat("ctor");
                T::Ctor { inst, idx, args }
            }
            None => self.leaf(ty, ctx),
        }
    }

    fn gen_new(&mut self, ty: Ty, budget: usize, ctx: &Ctx) -> T {
        let Ty::Inst(inst) = ty else { unreachable!() };
        let nx = self.p.insts[inst].xtors.len();
        let parts = self.split(budget - 1, nx);
        let mut clauses = Vec::new();
        for xi in 0..nx {
            let x = self.p.insts[inst].xtors[xi].clone();
            let mut names = Vec::new();
            let mut binders = Vec::new();
            for (cns, t) in &x.fields {
                let b = self.new_binder(*t, *cns, &names);
                names.push(self.p.binders[b].name.clone());
                binders.push(b);
            }
            let mut c2 = ctx.clone();
            c2.scope.extend(binders.iter().cloned());
            // the body of a clause is not an argument: effects are allowed again
            c2.pure = false;
            // a clause body must not call the definition recursively without fuel control
            let body = self.term(x.ret, parts[xi], &c2);
            clauses.push(ClauseA { binders, body });
        }
        let mut order: Vec<usize> = (0..nx).collect();
        self.rng.shuffle(&mut order);
        self.feat("new");
        T::New { inst, clauses, order }
    }

    fn gen_pure(&mut self, ty: Ty, budget: usize, ctx: &Ctx) -> T {
        // binding forms are pure when their parts are: they put binders (and so shadowing) into
        // argument position
        if budget >= 3 {
            match self.rng.below(11) {
                0..=2 => {
                    let bty = self.pool_ty();
                    let parts = self.split(budget - 1, 2);
                    let bound = self.term(bty, parts[0], ctx);
                    let b = self.new_binder(bty, false, &[]);
                    let mut c2 = ctx.clone();
                    c2.scope.push(b);
                    let body = self.term(ty, parts[1], &c2);
                    self.feat("let");
                    self.feat("let_in_pure_position");
                    return T::Let { b, bound: Box::new(bound), body: Box::new(body) };
                }
                3..=4 => {
                    let parts = self.split(budget - 1, 4);
                    let fst = self.term(Ty::I64, parts[0].min(4), ctx);
                    let two = self.rng.chance(2, 3);
                    let snd = if two { Some(Box::new(self.term(Ty::I64, parts[1].min(4), ctx))) } else { None };
                    let thn = self.term(ty, parts[2], ctx);
                    let els = self.term(ty, parts[3], ctx);
                    self.feat("if");
                    self.feat("if_in_pure_position");
                    let cmp = *self.rng.pick(&Cmp::ALL);
                    let zero_left = self.rng.chance(1, 3);
                    return T::If { cmp, fst: Box::new(fst), snd, zero_left, thn: Box::new(thn), els: Box::new(els) };
                }
                5..=6 => {
                    let datas: Vec<usize> = self.pool.iter().filter_map(|t| if let Ty::Inst(i) = t { if self.p.is_data(*t) { Some(*i) } else { None } } else { None }).collect();
                    if !datas.is_empty() {
                        let inst = *self.rng.pick(&datas);
                        let nx = self.p.insts[inst].xtors.len();
                        let parts = self.split(budget - 1, nx + 1);
                        let scrut = self.term(Ty::Inst(inst), parts[0].min(6), ctx);
                        let mut clauses = Vec::new();
                        for xi in 0..nx {
                            let fields = self.p.insts[inst].xtors[xi].fields.clone();
                            let mut names = Vec::new();
                            let mut binders = Vec::new();
                            for (cns, t) in &fields {
                                let b = self.new_binder(*t, *cns, &names);
                                names.push(self.p.binders[b].name.clone());
                                binders.push(b);
                            }
                            let mut c2 = ctx.clone();
                            c2.scope.extend(binders.iter().cloned());
                            let body = self.term(ty, parts[xi + 1], &c2);
                            clauses.push(ClauseA { binders, body });
                        }
                        let mut order: Vec<usize> = (0..nx).collect();
                        self.rng.shuffle(&mut order);
                        self.feat("case");
                        self.feat("case_in_pure_position");
                        return T::Case { scrut: Box::new(scrut), inst, clauses, order };
                    }
                }
                _ => {}
            }
        }
        match ty {
            Ty::I64 => {
                if self.rng.chance(1, 2) {
                    self.leaf(ty, ctx)
                } else {
                    let parts = self.split(budget - 1, 2);
                    let a = self.term(Ty::I64, parts[0], ctx);
                    let b = self.term(Ty::I64, parts[1], ctx);
                    T::Op(Box::new(a), *self.rng.pick(&[BinOp::Add, BinOp::Sub, BinOp::Mul]), Box::new(b))
                }
            }
            Ty::Inst(i) => {
                let vars = self.visible_of(&ctx.scope, Some(ty), false);
                if !vars.is_empty() && self.rng.chance(1, 2) {
                    return T::Var(*self.rng.pick(&vars));
                }
                if self.p.is_data(ty) {
                    let nx = self.p.insts[i].xtors.len();
                    let idx = self.rng.below(nx);
                    let sig = self.p.insts[i].xtors[idx].fields.clone();
                    match self.gen_args(&sig, budget - 1, ctx, true) {
                        Some(args) => T::Ctor { inst: i, idx, args },
                        None => {
                            // base constructor has no consumer fields
                            let x = self.p.insts[i].xtors[0].clone();
                            let args = x.fields.iter().map(|(_, t)| Arg::T(self.leaf_pure(*t, ctx))).collect();
                            T::Ctor { inst: i, idx: 0, args }
                        }
                    }
                } else {
                    self.gen_new(ty, budget, ctx)
                }
            }
        }
    }

    fn leaf_pure(&mut self, ty: Ty, ctx: &Ctx) -> T {
        let vars = self.visible_of(&ctx.scope, Some(ty), false);
        if !vars.is_empty() && self.rng.chance(3, 4) {
            return T::Var(*self.rng.pick(&vars));
        }
        match ty {
            Ty::I64 => self.lit(),
            Ty::Inst(i) => {
                if self.p.is_data(ty) {
                    let x = self.p.insts[i].xtors[0].clone();
                    let args = x.fields.iter().map(|(_, t)| Arg::T(self.leaf_pure(*t, ctx))).collect();
                    T::Ctor { inst: i, idx: 0, args }
                } else {
                    let mut c = ctx.clone();
                    c.depth += 1;
                    self.leaf_new(i, &c)
                }
            }
        }
    }
}
