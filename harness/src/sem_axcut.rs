//! AxCut abstract machine: named mode (non-linear programs) and positional mode (linearized
//! programs).  In positional mode the machine asserts at run time what the ordered-linear type
//! discipline demands (exact environment shape at call/invoke/let/switch/create).

use crate::trace::{Outcome, PrintEv, Undefined};
use axcut::syntax::statements::ifc::IfSort;
use axcut::syntax::statements::*;
use axcut::syntax::{BinOp, Chirality, ContextBinding, Def, Prog, Statement, Ty, ID};
use std::rc::Rc;

#[derive(Clone, Copy, PartialEq, Eq, Debug)]
pub enum Mode {
    Named,
    Positional,
}

#[derive(Clone)]
pub enum Val {
    Int(i64),
    Obj { tag: usize, fields: Rc<Vec<Val>> },
    Clo { clauses: *const Vec<Clause>, env: Rc<Vec<Entry>> },
}

#[derive(Clone)]
pub struct Entry {
    pub id: ID,
    pub chi: Chirality,
    pub ty: Ty,
    pub val: Val,
}

pub struct Limits {
    pub steps: u64,
}
impl Default for Limits {
    fn default() -> Self {
        Limits { steps: 3_000_000 }
    }
}

#[derive(Default, Clone, Debug)]
pub struct AxStats {
    pub steps: u64,
    pub substitutes: u64,
    pub lets: u64,
    pub switches: u64,
    pub creates: u64,
    pub invokes: u64,
    pub calls: u64,
    pub max_env: usize,
}

fn stuck<T>(msg: String) -> Result<T, Undefined> {
    Err(Undefined::Stuck(msg))
}

fn lookup<'a>(env: &'a [Entry], id: ID, mode: Mode) -> Result<&'a Entry, Undefined> {
    let mut found: Option<&Entry> = None;
    for e in env.iter().rev() {
        if e.id == id {
            if mode == Mode::Named {
                return Ok(e);
            }
            if found.is_some() {
                return stuck(format!("variable id {id} occurs twice in a linear environment"));
            }
            found = Some(e);
        }
    }
    found.ok_or_else(|| Undefined::Stuck(format!("variable id {id} not in environment")))
}

fn int_of(e: &Entry) -> Result<i64, Undefined> {
    match e.val {
        Val::Int(n) => Ok(n),
        _ => stuck(format!("variable id {} is not an integer", e.id)),
    }
}

fn same_kind(a: &ContextBinding, e: &Entry) -> bool {
    a.chi == e.chi && a.ty == e.ty
}

pub fn cmp_eval(sort: IfSort, a: i64, b: i64) -> bool {
    match sort {
        IfSort::Equal => a == b,
        IfSort::NotEqual => a != b,
        IfSort::Less => a < b,
        IfSort::LessOrEqual => a <= b,
        IfSort::Greater => a > b,
        IfSort::GreaterOrEqual => a >= b,
    }
}

pub fn op_eval(op: &BinOp, a: i64, b: i64) -> Option<i64> {
    match op {
        BinOp::Sum => Some(a.wrapping_add(b)),
        BinOp::Sub => Some(a.wrapping_sub(b)),
        BinOp::Prod => Some(a.wrapping_mul(b)),
        BinOp::Div => {
            if b == 0 || (a == i64::MIN && b == -1) { None } else { Some(a / b) }
        }
        BinOp::Rem => {
            if b == 0 || (a == i64::MIN && b == -1) { None } else { Some(a % b) }
        }
    }
}

pub fn run(p: &Prog, args: &[i64], mode: Mode, lim: &Limits) -> (Outcome, AxStats) {
    let mut prints = Vec::new();
    let mut st = AxStats::default();
    let end = exec(p, args, mode, lim, &mut prints, &mut st);
    (Outcome { prints, end }, st)
}

fn find_def<'a>(p: &'a Prog, label: &axcut::syntax::Identifier) -> Result<&'a Def, Undefined> {
    let mut found = None;
    for d in &p.defs {
        if d.name == *label {
            if found.is_some() {
                return stuck(format!("two definitions named {}", label.name));
            }
            found = Some(d);
        }
    }
    found.ok_or_else(|| Undefined::Stuck(format!("call of undefined label {}_{}", label.name, label.id)))
}

fn exec(p: &Prog, args: &[i64], mode: Mode, lim: &Limits, prints: &mut Vec<PrintEv>, st: &mut AxStats) -> Result<i64, Undefined> {
    let main = p.defs.first().ok_or(Undefined::Internal("empty program"))?;
    if main.context.bindings.len() != args.len() {
        return stuck(format!("main expects {} arguments, {} given", main.context.bindings.len(), args.len()));
    }
    let mut env: Vec<Entry> = main
        .context
        .bindings
        .iter()
        .zip(args)
        .map(|(b, v)| Entry { id: b.var.id, chi: b.chi.clone(), ty: b.ty.clone(), val: Val::Int(*v) })
        .collect();
    let mut cur: *const Statement = &main.body;
    loop {
        st.steps += 1;
        if st.steps > lim.steps {
            return Err(Undefined::Fuel);
        }
        st.max_env = st.max_env.max(env.len());
        let s = unsafe { &*cur };
        match s {
            Statement::Substitute(sub) => {
                st.substitutes += 1;
                let mut new_env = Vec::with_capacity(sub.rearrange.len());
                for (new, old) in &sub.rearrange {
                    let e = lookup(&env, old.id, mode)?;
                    if mode == Mode::Positional && !same_kind(new, e) {
                        return stuck(format!("substitute: {} := {} changes kind/type", new.var.name, old.name));
                    }
                    new_env.push(Entry { id: new.var.id, chi: new.chi.clone(), ty: new.ty.clone(), val: e.val.clone() });
                }
                if mode == Mode::Positional {
                    let mut ids: Vec<ID> = new_env.iter().map(|e| e.id).collect();
                    ids.sort();
                    ids.dedup();
                    if ids.len() != new_env.len() {
                        return stuck("substitute binds a variable twice".into());
                    }
                }
                env = new_env;
                cur = &*sub.next;
            }
            Statement::Call(c) => {
                st.calls += 1;
                let d = find_def(p, &c.label)?;
                let params = &d.context.bindings;
                match mode {
                    Mode::Named => {
                        if c.args.bindings.len() != params.len() {
                            return stuck(format!("call {}: {} arguments for {} parameters", c.label.name, c.args.bindings.len(), params.len()));
                        }
                        let mut new_env = Vec::with_capacity(params.len());
                        for (a, prm) in c.args.bindings.iter().zip(params) {
                            let e = lookup(&env, a.var.id, mode)?;
                            new_env.push(Entry { id: prm.var.id, chi: prm.chi.clone(), ty: prm.ty.clone(), val: e.val.clone() });
                        }
                        env = new_env;
                    }
                    Mode::Positional => {
                        if !c.args.bindings.is_empty() {
                            return stuck(format!("linear call {} still carries arguments", c.label.name));
                        }
                        if env.len() != params.len() {
                            return stuck(format!("call {}: environment has {} entries, callee expects {}", c.label.name, env.len(), params.len()));
                        }
                        for (e, prm) in env.iter_mut().zip(params) {
                            if !same_kind(prm, e) {
                                return stuck(format!("call {}: kind/type mismatch at parameter {}", c.label.name, prm.var.name));
                            }
                            e.id = prm.var.id;
                        }
                    }
                }
                cur = &d.body;
            }
            Statement::Let(l) => {
                st.lets += 1;
                let decl = p.types.iter().find(|t| Ty::Decl(t.name.clone()) == l.ty).ok_or_else(|| Undefined::Stuck(format!("let: unknown type {:?}", l.ty)))?;
                let tag = decl.xtors.iter().position(|x| x.name == l.tag).ok_or_else(|| Undefined::Stuck(format!("let: unknown xtor {}", l.tag.name)))?;
                let n = l.args.bindings.len();
                let mut fields = Vec::with_capacity(n);
                match mode {
                    Mode::Named => {
                        for a in &l.args.bindings {
                            fields.push(lookup(&env, a.var.id, mode)?.val.clone());
                        }
                    }
                    Mode::Positional => {
                        if env.len() < n {
                            return stuck("let: environment shorter than argument list".into());
                        }
                        let tail = env.split_off(env.len() - n);
                        for (a, e) in l.args.bindings.iter().zip(tail.iter()) {
                            if a.var.id != e.id || !same_kind(a, e) {
                                return stuck(format!("let {}: trailing environment is not the argument list (at {})", l.var.name, a.var.name));
                            }
                            fields.push(e.val.clone());
                        }
                    }
                }
                env.push(Entry { id: l.var.id, chi: Chirality::Prd, ty: l.ty.clone(), val: Val::Obj { tag, fields: Rc::new(fields) } });
                cur = &*l.next;
            }
            Statement::Switch(sw) => {
                st.switches += 1;
                let (tag, fields) = match mode {
                    Mode::Named => match &lookup(&env, sw.var.id, mode)?.val {
                        Val::Obj { tag, fields } => (*tag, fields.clone()),
                        _ => return stuck(format!("switch on non-object {}", sw.var.name)),
                    },
                    Mode::Positional => {
                        let e = env.pop().ok_or(Undefined::Internal("switch: empty environment"))?;
                        if e.id != sw.var.id {
                            return stuck(format!("switch {}: scrutinee is not the last variable of the environment", sw.var.name));
                        }
                        if e.chi != Chirality::Prd || e.ty != sw.ty {
                            return stuck(format!("switch {}: kind/type mismatch", sw.var.name));
                        }
                        match e.val {
                            Val::Obj { tag, fields } => (tag, fields),
                            _ => return stuck(format!("switch on non-object {}", sw.var.name)),
                        }
                    }
                };
                let decl = p.types.iter().find(|t| Ty::Decl(t.name.clone()) == sw.ty).ok_or_else(|| Undefined::Stuck(format!("switch: unknown type {:?}", sw.ty)))?;
                let xt = decl.xtors.get(tag).ok_or(Undefined::Internal("switch: tag out of range"))?;
                let cl = sw.clauses.iter().find(|c| c.xtor == xt.name).ok_or_else(|| Undefined::Stuck(format!("switch: no clause for {}", xt.name.name)))?;
                if cl.context.bindings.len() != fields.len() {
                    return stuck(format!("switch: clause {} binds {} variables, object has {} fields", xt.name.name, cl.context.bindings.len(), fields.len()));
                }
                for (b, v) in cl.context.bindings.iter().zip(fields.iter()) {
                    env.push(Entry { id: b.var.id, chi: b.chi.clone(), ty: b.ty.clone(), val: v.clone() });
                }
                cur = &*cl.body;
            }
            Statement::Create(c) => {
                st.creates += 1;
                let captured: Vec<Entry> = match mode {
                    Mode::Named => env.clone(),
                    Mode::Positional => {
                        let ctx = c.context.as_ref().ok_or(Undefined::Internal("create: closure environment not annotated"))?;
                        let n = ctx.bindings.len();
                        if env.len() < n {
                            return stuck("create: environment shorter than closure environment".into());
                        }
                        let tail = env.split_off(env.len() - n);
                        for (a, e) in ctx.bindings.iter().zip(tail.iter()) {
                            if a.var.id != e.id || !same_kind(a, e) {
                                return stuck(format!("create {}: trailing environment is not the closure environment (at {})", c.var.name, a.var.name));
                            }
                        }
                        tail
                    }
                };
                env.push(Entry { id: c.var.id, chi: Chirality::Cns, ty: c.ty.clone(), val: Val::Clo { clauses: &c.clauses as *const _, env: Rc::new(captured) } });
                cur = &*c.next;
            }
            Statement::Invoke(iv) => {
                st.invokes += 1;
                let (clauses, captured, mut argvals): (*const Vec<Clause>, Rc<Vec<Entry>>, Vec<Entry>) = match mode {
                    Mode::Named => {
                        let (cl, cap) = match &lookup(&env, iv.var.id, mode)?.val {
                            Val::Clo { clauses, env } => (*clauses, env.clone()),
                            _ => return stuck(format!("invoke on non-closure {}", iv.var.name)),
                        };
                        let mut av = Vec::new();
                        for a in &iv.args.bindings {
                            av.push(lookup(&env, a.var.id, mode)?.clone());
                        }
                        (cl, cap, av)
                    }
                    Mode::Positional => {
                        if !iv.args.bindings.is_empty() {
                            return stuck(format!("linear invoke {} still carries arguments", iv.var.name));
                        }
                        let e = env.pop().ok_or(Undefined::Internal("invoke: empty environment"))?;
                        if e.id != iv.var.id {
                            return stuck(format!("invoke {}: closure is not the last variable of the environment", iv.var.name));
                        }
                        if e.chi != Chirality::Cns || e.ty != iv.ty {
                            return stuck(format!("invoke {}: kind/type mismatch", iv.var.name));
                        }
                        match e.val {
                            Val::Clo { clauses, env: cap } => (clauses, cap, std::mem::take(&mut env)),
                            _ => return stuck(format!("invoke on non-closure {}", iv.var.name)),
                        }
                    }
                };
                let cls = unsafe { &*clauses };
                let cl = cls.iter().find(|c| c.xtor == iv.tag).ok_or_else(|| Undefined::Stuck(format!("invoke: no clause for {}", iv.tag.name)))?;
                if cl.context.bindings.len() != argvals.len() {
                    return stuck(format!("invoke {}.{}: {} arguments for {} parameters", iv.var.name, iv.tag.name, argvals.len(), cl.context.bindings.len()));
                }
                for (b, e) in cl.context.bindings.iter().zip(argvals.iter_mut()) {
                    if mode == Mode::Positional && !same_kind(b, e) {
                        return stuck(format!("invoke {}.{}: kind/type mismatch at {}", iv.var.name, iv.tag.name, b.var.name));
                    }
                    e.id = b.var.id;
                    e.chi = b.chi.clone();
                    e.ty = b.ty.clone();
                }
                match mode {
                    Mode::Named => {
                        // captured environment first so that parameters shadow it
                        let mut ne: Vec<Entry> = (*captured).clone();
                        ne.extend(argvals);
                        env = ne;
                    }
                    Mode::Positional => {
                        argvals.extend(captured.iter().cloned());
                        env = argvals;
                    }
                }
                cur = &*cl.body;
            }
            Statement::Literal(l) => {
                env.push(Entry { id: l.var.id, chi: Chirality::Ext, ty: Ty::I64, val: Val::Int(l.lit) });
                cur = &*l.next;
            }
            Statement::Op(o) => {
                let a = int_of(lookup(&env, o.fst.id, mode)?)?;
                let b = int_of(lookup(&env, o.snd.id, mode)?)?;
                let r = op_eval(&o.op, a, b).ok_or(Undefined::Arith)?;
                env.push(Entry { id: o.var.id, chi: Chirality::Ext, ty: Ty::I64, val: Val::Int(r) });
                cur = &*o.next;
            }
            Statement::PrintI64(pr) => {
                let a = int_of(lookup(&env, pr.var.id, mode)?)?;
                prints.push(PrintEv { value: a, newline: pr.newline });
                if prints.len() > 100_000 {
                    return Err(Undefined::Fuel);
                }
                cur = &*pr.next;
            }
            Statement::IfC(i) => {
                let a = int_of(lookup(&env, i.fst.id, mode)?)?;
                let b = match &i.snd {
                    Some(s) => int_of(lookup(&env, s.id, mode)?)?,
                    None => 0,
                };
                cur = if cmp_eval(i.sort, a, b) { &*i.thenc } else { &*i.elsec };
            }
            Statement::Exit(e) => {
                return int_of(lookup(&env, e.var.id, mode)?);
            }
        }
    }
}
