//! Type checkers for AxCut: named typing of non-linear programs and the ordered-linear typing
//! the backends assume for linearized programs (checked on every path, executed or not).

use axcut::syntax::statements::*;
use axcut::syntax::{Chirality, ContextBinding, Def, Prog, Statement, Ty, TypeDeclaration, TypingContext, ID};
use std::collections::{BTreeMap, HashSet};

fn show(i: &axcut::syntax::Identifier) -> String {
    if i.id == 0 { i.name.clone() } else { format!("{}_{}", i.name, i.id) }
}

fn decl<'a>(types: &'a [TypeDeclaration], ty: &Ty) -> Result<&'a TypeDeclaration, String> {
    match ty {
        Ty::I64 => Err("user-defined type expected, found i64".into()),
        Ty::Decl(n) => {
            let hits: Vec<_> = types.iter().filter(|t| t.name == *n).collect();
            if hits.len() != 1 {
                return Err(format!("{} declarations of type {}", hits.len(), show(n)));
            }
            Ok(hits[0])
        }
    }
}

fn xtor_sig<'a>(types: &'a [TypeDeclaration], ty: &Ty, tag: &axcut::syntax::Identifier) -> Result<&'a TypingContext, String> {
    let d = decl(types, ty)?;
    let hits: Vec<_> = d.xtors.iter().filter(|x| x.name == *tag).collect();
    if hits.len() != 1 {
        return Err(format!("type {} has {} xtors named {}", show(&d.name), hits.len(), show(tag)));
    }
    Ok(&hits[0].args)
}

fn find_def<'a>(p: &'a Prog, label: &axcut::syntax::Identifier) -> Result<&'a Def, String> {
    let hits: Vec<_> = p.defs.iter().filter(|d| d.name == *label).collect();
    if hits.len() != 1 {
        return Err(format!("{} definitions named {}", hits.len(), show(label)));
    }
    Ok(hits[0])
}

#[derive(Default, Debug, Clone)]
pub struct AxTyStats {
    pub statements: u64,
    pub kinds: BTreeMap<&'static str, u64>,
    pub substitutes: u64,
    pub max_env: usize,
    pub binders: u64,
    pub rebinds: u64,
}

// ------------------------------------------------------------------ named (non-linear)

type NEnv = Vec<ContextBinding>;

fn nlookup<'a>(env: &'a NEnv, id: ID) -> Option<&'a ContextBinding> {
    env.iter().rev().find(|b| b.var.id == id)
}

fn expect(env: &NEnv, b: &ContextBinding, what: &str) -> Result<(), String> {
    match nlookup(env, b.var.id) {
        None => Err(format!("{what}: variable {} is not in scope", show(&b.var))),
        Some(e) => {
            if e.chi != b.chi || e.ty != b.ty {
                Err(format!("{what}: variable {} is bound as {:?} {:?} but used as {:?} {:?}", show(&b.var), e.chi, e.ty, b.chi, b.ty))
            } else {
                Ok(())
            }
        }
    }
}

fn expect_ext(env: &NEnv, v: &axcut::syntax::Identifier, what: &str) -> Result<(), String> {
    expect(env, &ContextBinding { var: v.clone(), chi: Chirality::Ext, ty: Ty::I64 }, what)
}

fn same_shape(a: &TypingContext, b: &TypingContext, what: &str) -> Result<(), String> {
    if a.bindings.len() != b.bindings.len() {
        return Err(format!("{what}: {} entries where {} are declared", a.bindings.len(), b.bindings.len()));
    }
    for (i, (x, y)) in a.bindings.iter().zip(&b.bindings).enumerate() {
        if x.chi != y.chi || x.ty != y.ty {
            return Err(format!("{what}: position {i} is {:?} {:?} but declared {:?} {:?}", x.chi, x.ty, y.chi, y.ty));
        }
    }
    Ok(())
}

fn clauses_cover(types: &[TypeDeclaration], ty: &Ty, clauses: &[Clause], what: &str) -> Result<(), String> {
    let d = decl(types, ty)?;
    if clauses.len() != d.xtors.len() {
        return Err(format!("{what}: {} clauses for {} xtors of {}", clauses.len(), d.xtors.len(), show(&d.name)));
    }
    for x in &d.xtors {
        let hits: Vec<_> = clauses.iter().filter(|c| c.xtor == x.name).collect();
        if hits.len() != 1 {
            return Err(format!("{what}: {} clauses for xtor {}", hits.len(), show(&x.name)));
        }
        same_shape(&hits[0].context, &x.args, &format!("{what}: clause {}", show(&x.name)))?;
    }
    Ok(())
}

fn named(p: &Prog, s: &Statement, env: &NEnv, path_ids: &HashSet<ID>, st: &mut AxTyStats) -> Result<(), String> {
    st.statements += 1;
    st.max_env = st.max_env.max(env.len());
    let bind = |ids: &HashSet<ID>, b: &ContextBinding, st: &mut AxTyStats| -> Result<HashSet<ID>, String> {
        st.binders += 1;
        if b.var.id > p.max_id {
            return Err(format!("binder {} exceeds max_id {}", show(&b.var), p.max_id));
        }
        if ids.contains(&b.var.id) {
            // not demanded by any property of AxCut itself: recorded, not judged
            st.rebinds += 1;
        }
        let mut n = ids.clone();
        n.insert(b.var.id);
        Ok(n)
    };
    match s {
        Statement::Substitute(_) => Err("explicit substitution in a non-linear program".into()),
        Statement::Call(c) => {
            *st.kinds.entry("call").or_insert(0) += 1;
            let d = find_def(p, &c.label)?;
            same_shape(&c.args, &d.context, &format!("call {}", show(&c.label)))?;
            for a in &c.args.bindings {
                expect(env, a, &format!("call {}", show(&c.label)))?;
            }
            Ok(())
        }
        Statement::Let(l) => {
            *st.kinds.entry("let").or_insert(0) += 1;
            let sig = xtor_sig(&p.types, &l.ty, &l.tag)?;
            same_shape(&l.args, sig, &format!("let {} = {}", show(&l.var), show(&l.tag)))?;
            for a in &l.args.bindings {
                expect(env, a, &format!("let {}", show(&l.var)))?;
            }
            let b = ContextBinding { var: l.var.clone(), chi: Chirality::Prd, ty: l.ty.clone() };
            let ids = bind(path_ids, &b, st)?;
            let mut e2 = env.clone();
            e2.push(b);
            named(p, &l.next, &e2, &ids, st)
        }
        Statement::Switch(sw) => {
            *st.kinds.entry("switch").or_insert(0) += 1;
            expect(env, &ContextBinding { var: sw.var.clone(), chi: Chirality::Prd, ty: sw.ty.clone() }, "switch")?;
            clauses_cover(&p.types, &sw.ty, &sw.clauses, "switch")?;
            for c in &sw.clauses {
                let mut e2 = env.clone();
                let mut ids = path_ids.clone();
                for b in &c.context.bindings {
                    ids = bind(&ids, b, st)?;
                    e2.push(b.clone());
                }
                named(p, &c.body, &e2, &ids, st)?;
            }
            Ok(())
        }
        Statement::Create(c) => {
            *st.kinds.entry("create").or_insert(0) += 1;
            clauses_cover(&p.types, &c.ty, &c.clauses, "create")?;
            for cl in &c.clauses {
                let mut e2 = env.clone();
                let mut ids = path_ids.clone();
                for b in &cl.context.bindings {
                    ids = bind(&ids, b, st)?;
                    e2.push(b.clone());
                }
                named(p, &cl.body, &e2, &ids, st)?;
            }
            let b = ContextBinding { var: c.var.clone(), chi: Chirality::Cns, ty: c.ty.clone() };
            let ids = bind(path_ids, &b, st)?;
            let mut e2 = env.clone();
            e2.push(b);
            named(p, &c.next, &e2, &ids, st)
        }
        Statement::Invoke(i) => {
            *st.kinds.entry("invoke").or_insert(0) += 1;
            expect(env, &ContextBinding { var: i.var.clone(), chi: Chirality::Cns, ty: i.ty.clone() }, "invoke")?;
            let sig = xtor_sig(&p.types, &i.ty, &i.tag)?;
            same_shape(&i.args, sig, &format!("invoke {}.{}", show(&i.var), show(&i.tag)))?;
            for a in &i.args.bindings {
                expect(env, a, "invoke")?;
            }
            Ok(())
        }
        Statement::Literal(l) => {
            *st.kinds.entry("lit").or_insert(0) += 1;
            let b = ContextBinding { var: l.var.clone(), chi: Chirality::Ext, ty: Ty::I64 };
            let ids = bind(path_ids, &b, st)?;
            let mut e2 = env.clone();
            e2.push(b);
            named(p, &l.next, &e2, &ids, st)
        }
        Statement::Op(o) => {
            *st.kinds.entry("op").or_insert(0) += 1;
            expect_ext(env, &o.fst, "operator")?;
            expect_ext(env, &o.snd, "operator")?;
            let b = ContextBinding { var: o.var.clone(), chi: Chirality::Ext, ty: Ty::I64 };
            let ids = bind(path_ids, &b, st)?;
            let mut e2 = env.clone();
            e2.push(b);
            named(p, &o.next, &e2, &ids, st)
        }
        Statement::PrintI64(pr) => {
            *st.kinds.entry("print").or_insert(0) += 1;
            expect_ext(env, &pr.var, "print")?;
            named(p, &pr.next, env, path_ids, st)
        }
        Statement::IfC(i) => {
            *st.kinds.entry("ifc").or_insert(0) += 1;
            expect_ext(env, &i.fst, "if")?;
            if let Some(s) = &i.snd {
                expect_ext(env, s, "if")?;
            }
            named(p, &i.thenc, env, path_ids, st)?;
            named(p, &i.elsec, env, path_ids, st)
        }
        Statement::Exit(e) => {
            *st.kinds.entry("exit").or_insert(0) += 1;
            expect_ext(env, &e.var, "exit")
        }
    }
}

/// Named typing (and binder uniqueness along paths) of a non-linear AxCut program.
pub fn check_named(p: &Prog) -> Result<AxTyStats, String> {
    let mut st = AxTyStats::default();
    for (i, d) in p.defs.iter().enumerate() {
        if p.defs[..i].iter().any(|e| e.name == d.name) {
            return Err(format!("two definitions named {}", show(&d.name)));
        }
    }
    for t in &p.types {
        for (i, x) in t.xtors.iter().enumerate() {
            if t.xtors[..i].iter().any(|y| y.name == x.name) {
                return Err(format!("type {} declares xtor {} twice", show(&t.name), show(&x.name)));
            }
        }
    }
    for d in &p.defs {
        let mut ids = HashSet::new();
        for b in &d.context.bindings {
            if !ids.insert(b.var.id) {
                return Err(format!("definition {}: parameter {} bound twice", show(&d.name), show(&b.var)));
            }
            if b.var.id > p.max_id {
                return Err(format!("definition {}: parameter {} exceeds max_id", show(&d.name), show(&b.var)));
            }
        }
        named(p, &d.body, &d.context.bindings, &ids, &mut st).map_err(|e| format!("definition {}: {e}", show(&d.name)))?;
    }
    Ok(st)
}

/// Lifted definitions receive their free variables (C04): every variable free in the body of a
/// lifted definition is one of its parameters, parameters are pairwise distinct, and every call of
/// a lifted definition passes as many arguments, of the same kinds and types, as it has parameters.
/// (Whether a parameter is still *used* after shrinking is not observable and not demanded.)
pub fn lifted_params_cover(p: &Prog, is_lifted: impl Fn(&axcut::syntax::Identifier) -> bool) -> Result<u64, String> {
    use axcut::traits::free_vars::FreeVars;
    let mut n = 0;
    for d in &p.defs {
        if !is_lifted(&d.name) {
            continue;
        }
        n += 1;
        let mut fv = HashSet::new();
        let _ = d.body.clone().free_vars(&mut fv);
        let params: HashSet<ID> = d.context.bindings.iter().map(|b| b.var.id).collect();
        if params.len() != d.context.bindings.len() {
            return Err(format!("lifted definition {} has a duplicated parameter", show(&d.name)));
        }
        for v in &fv {
            if !params.contains(v) {
                return Err(format!("lifted definition {}: variable with id {v} is free in the body but not a parameter", show(&d.name)));
            }
        }
    }
    fn calls(p: &Prog, s: &Statement, is_lifted: &dyn Fn(&axcut::syntax::Identifier) -> bool) -> Result<(), String> {
        match s {
            Statement::Call(c) => {
                if is_lifted(&c.label) {
                    let d = find_def(p, &c.label)?;
                    same_shape(&c.args, &d.context, &format!("call of lifted definition {}", show(&c.label)))?;
                }
                Ok(())
            }
            Statement::Substitute(x) => calls(p, &x.next, is_lifted),
            Statement::Let(x) => calls(p, &x.next, is_lifted),
            Statement::Switch(x) => x.clauses.iter().try_for_each(|c| calls(p, &c.body, is_lifted)),
            Statement::Create(x) => {
                x.clauses.iter().try_for_each(|c| calls(p, &c.body, is_lifted))?;
                calls(p, &x.next, is_lifted)
            }
            Statement::Invoke(_) | Statement::Exit(_) => Ok(()),
            Statement::Literal(x) => calls(p, &x.next, is_lifted),
            Statement::Op(x) => calls(p, &x.next, is_lifted),
            Statement::PrintI64(x) => calls(p, &x.next, is_lifted),
            Statement::IfC(x) => {
                calls(p, &x.thenc, is_lifted)?;
                calls(p, &x.elsec, is_lifted)
            }
        }
    }
    for d in &p.defs {
        calls(p, &d.body, &is_lifted)?;
    }
    Ok(n)
}

// ------------------------------------------------------------------ ordered linear

type LEnv = Vec<ContextBinding>;

fn distinct(env: &LEnv, what: &str) -> Result<(), String> {
    let mut s = HashSet::new();
    for b in env {
        if !s.insert(b.var.id) {
            return Err(format!("{what}: variable {} occurs twice in the environment", show(&b.var)));
        }
    }
    Ok(())
}

fn has(env: &LEnv, v: &axcut::syntax::Identifier, chi: Chirality, ty: &Ty, what: &str) -> Result<(), String> {
    match env.iter().find(|b| b.var.id == v.id) {
        None => Err(format!("{what}: {} is not in the environment", show(v))),
        Some(b) => {
            if b.chi != chi || b.ty != *ty {
                Err(format!("{what}: {} has kind/type {:?} {:?}, expected {:?} {:?}", show(v), b.chi, b.ty, chi, ty))
            } else {
                Ok(())
            }
        }
    }
}

fn tail_is(env: &LEnv, tail: &[ContextBinding], what: &str) -> Result<LEnv, String> {
    if env.len() < tail.len() {
        return Err(format!("{what}: environment has {} entries, {} expected at its end", env.len(), tail.len()));
    }
    let k = env.len() - tail.len();
    for (e, t) in env[k..].iter().zip(tail) {
        if e.var.id != t.var.id || e.chi != t.chi || e.ty != t.ty {
            return Err(format!("{what}: the environment ends with {} ({:?}) where {} ({:?}) is expected", show(&e.var), e.chi, show(&t.var), t.chi));
        }
    }
    Ok(env[..k].to_vec())
}

fn linear(p: &Prog, s: &Statement, env: &LEnv, st: &mut AxTyStats) -> Result<(), String> {
    st.statements += 1;
    st.max_env = st.max_env.max(env.len());
    distinct(env, "environment")?;
    match s {
        Statement::Substitute(sub) => {
            *st.kinds.entry("substitute").or_insert(0) += 1;
            st.substitutes += 1;
            let mut ne = Vec::new();
            for (new, old) in &sub.rearrange {
                has(env, old, new.chi.clone(), &new.ty, &format!("substitute {} := {}", show(&new.var), show(old)))?;
                ne.push(new.clone());
            }
            distinct(&ne, "substitute targets")?;
            linear(p, &sub.next, &ne, st)
        }
        Statement::Call(c) => {
            *st.kinds.entry("call").or_insert(0) += 1;
            if !c.args.bindings.is_empty() {
                return Err(format!("call {}: linear call still carries arguments", show(&c.label)));
            }
            let d = find_def(p, &c.label)?;
            same_shape(&TypingContext { bindings: env.clone() }, &d.context, &format!("call {}: environment vs parameters", show(&c.label)))
        }
        Statement::Let(l) => {
            *st.kinds.entry("let").or_insert(0) += 1;
            let sig = xtor_sig(&p.types, &l.ty, &l.tag)?;
            same_shape(&l.args, sig, &format!("let {} = {}", show(&l.var), show(&l.tag)))?;
            let mut rest = tail_is(env, &l.args.bindings, &format!("let {}", show(&l.var)))?;
            rest.push(ContextBinding { var: l.var.clone(), chi: Chirality::Prd, ty: l.ty.clone() });
            linear(p, &l.next, &rest, st)
        }
        Statement::Switch(sw) => {
            *st.kinds.entry("switch").or_insert(0) += 1;
            let rest = tail_is(env, &[ContextBinding { var: sw.var.clone(), chi: Chirality::Prd, ty: sw.ty.clone() }], &format!("switch {}", show(&sw.var)))?;
            clauses_cover(&p.types, &sw.ty, &sw.clauses, "switch")?;
            for c in &sw.clauses {
                let mut e2 = rest.clone();
                e2.extend(c.context.bindings.iter().cloned());
                linear(p, &c.body, &e2, st).map_err(|e| format!("{e} (in clause {})", show(&c.xtor)))?;
            }
            Ok(())
        }
        Statement::Create(c) => {
            *st.kinds.entry("create").or_insert(0) += 1;
            let Some(cenv) = &c.context else { return Err(format!("create {}: closure environment not annotated", show(&c.var))) };
            let mut rest = tail_is(env, &cenv.bindings, &format!("create {}", show(&c.var)))?;
            clauses_cover(&p.types, &c.ty, &c.clauses, "create")?;
            for cl in &c.clauses {
                let mut e2: LEnv = cl.context.bindings.clone();
                e2.extend(cenv.bindings.iter().cloned());
                linear(p, &cl.body, &e2, st).map_err(|e| format!("{e} (in method {})", show(&cl.xtor)))?;
            }
            rest.push(ContextBinding { var: c.var.clone(), chi: Chirality::Cns, ty: c.ty.clone() });
            linear(p, &c.next, &rest, st)
        }
        Statement::Invoke(i) => {
            *st.kinds.entry("invoke").or_insert(0) += 1;
            if !i.args.bindings.is_empty() {
                return Err(format!("invoke {}: linear invoke still carries arguments", show(&i.var)));
            }
            let rest = tail_is(env, &[ContextBinding { var: i.var.clone(), chi: Chirality::Cns, ty: i.ty.clone() }], &format!("invoke {}", show(&i.var)))?;
            let sig = xtor_sig(&p.types, &i.ty, &i.tag)?;
            same_shape(&TypingContext { bindings: rest }, sig, &format!("invoke {}.{}: environment vs parameters", show(&i.var), show(&i.tag)))
        }
        Statement::Literal(l) => {
            *st.kinds.entry("lit").or_insert(0) += 1;
            let mut e2 = env.clone();
            e2.push(ContextBinding { var: l.var.clone(), chi: Chirality::Ext, ty: Ty::I64 });
            linear(p, &l.next, &e2, st)
        }
        Statement::Op(o) => {
            *st.kinds.entry("op").or_insert(0) += 1;
            has(env, &o.fst, Chirality::Ext, &Ty::I64, "operator")?;
            has(env, &o.snd, Chirality::Ext, &Ty::I64, "operator")?;
            let mut e2 = env.clone();
            e2.push(ContextBinding { var: o.var.clone(), chi: Chirality::Ext, ty: Ty::I64 });
            linear(p, &o.next, &e2, st)
        }
        Statement::PrintI64(pr) => {
            *st.kinds.entry("print").or_insert(0) += 1;
            has(env, &pr.var, Chirality::Ext, &Ty::I64, "print")?;
            linear(p, &pr.next, env, st)
        }
        Statement::IfC(i) => {
            *st.kinds.entry("ifc").or_insert(0) += 1;
            has(env, &i.fst, Chirality::Ext, &Ty::I64, "if")?;
            if let Some(s) = &i.snd {
                has(env, s, Chirality::Ext, &Ty::I64, "if")?;
            }
            linear(p, &i.thenc, env, st)?;
            linear(p, &i.elsec, env, st)
        }
        Statement::Exit(e) => {
            *st.kinds.entry("exit").or_insert(0) += 1;
            has(env, &e.var, Chirality::Ext, &Ty::I64, "exit")
        }
    }
}

/// Ordered-linear typing of a linearized program: on every path the environment is exactly the
/// list each statement expects.
pub fn check_linear(p: &Prog) -> Result<AxTyStats, String> {
    let mut st = AxTyStats::default();
    for (i, d) in p.defs.iter().enumerate() {
        if p.defs[..i].iter().any(|e| e.name == d.name) {
            return Err(format!("two definitions named {}", show(&d.name)));
        }
    }
    for d in &p.defs {
        linear(p, &d.body, &d.context.bindings, &mut st).map_err(|e| format!("definition {}: {e}", show(&d.name)))?;
    }
    Ok(st)
}
