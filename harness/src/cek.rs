//! CEK reference machine for Fun, run on the harness' own APR (independent of the compiler).
//!
//! Integers and data are eager (left to right); codata is by name (a codata-typed let-bound term
//! or argument is suspended and run each time a destructor is applied to it); labels bind the
//! current continuation; `exit` stops at once.

use crate::apr::*;
use crate::trace::{Outcome, PrintEv, Undefined};
use std::rc::Rc;

#[derive(Clone)]
pub enum V {
    Int(i64),
    Data(usize, Rc<Vec<V>>),
    Obj(Rc<ObjClo>),
    Thunk(Rc<ThunkClo>),
    Kont(K),
}

pub struct ObjClo {
    clauses: *const Vec<ClauseA>,
    env: Env,
}
pub struct ThunkClo {
    term: *const T,
    env: Env,
}

type Env = Option<Rc<EnvNode>>;
pub struct EnvNode {
    b: usize,
    v: V,
    next: Env,
}

fn bind(env: &Env, b: usize, v: V) -> Env {
    Some(Rc::new(EnvNode { b, v, next: env.clone() }))
}

fn lookup(env: &Env, b: usize) -> Option<V> {
    let mut e = env;
    while let Some(n) = e {
        if n.b == b {
            return Some(n.v.clone());
        }
        e = &n.next;
    }
    None
}

type K = Option<Rc<Frame>>;

#[derive(Clone, Copy)]
enum Target {
    Call(usize),
    Ctor(usize, usize),
    /// destructor arguments; afterwards the scrutinee is evaluated
    Dtor(usize, usize),
}

enum FrameK {
    OpL(BinOp, *const T, Env),
    OpR(BinOp, i64),
    IfL { cmp: Cmp, snd: *const T, thn: *const T, els: *const T, env: Env },
    IfR { cmp: Cmp, fst: i64, thn: *const T, els: *const T, env: Env },
    IfZ { cmp: Cmp, thn: *const T, els: *const T, env: Env },
    Print { newline: bool, next: *const T, env: Env },
    Let { b: usize, body: *const T, env: Env },
    Args { target: Target, done: Vec<V>, args: *const Vec<Arg>, scrut: *const T, env: Env },
    Case { clauses: *const Vec<ClauseA>, env: Env },
    Dtor { idx: usize, args: Vec<V> },
    Exit,
}

pub struct Frame {
    f: FrameK,
    next: K,
}

fn push(f: FrameK, k: &K) -> K {
    Some(Rc::new(Frame { f, next: k.clone() }))
}

pub struct Limits {
    pub steps: u64,
}

impl Default for Limits {
    fn default() -> Self {
        Limits { steps: 300_000 }
    }
}

enum State {
    Eval(*const T, Env, K),
    Ret(V, K),
}

pub struct Stats {
    pub steps: u64,
    pub forces: u64,
    pub gotos: u64,
    pub calls: u64,
    pub max_kdepth_est: u64,
}

pub fn run(p: &Prog, args: &[i64], lim: &Limits) -> (Outcome, Stats) {
    let mut m = Machine { p, out: Vec::new(), steps: 0, forces: 0, gotos: 0, calls: 0 };
    let main = &p.defs[p.main];
    let mut env: Env = None;
    for (b, v) in main.params.iter().zip(args) {
        env = bind(&env, *b, V::Int(*v));
    }
    let res = m.exec(State::Eval(&main.body as *const T, env, None), lim);
    let stats = Stats { steps: m.steps, forces: m.forces, gotos: m.gotos, calls: m.calls, max_kdepth_est: 0 };
    (Outcome { prints: m.out, end: res }, stats)
}

struct Machine<'a> {
    p: &'a Prog,
    out: Vec<PrintEv>,
    steps: u64,
    forces: u64,
    gotos: u64,
    calls: u64,
}

impl<'a> Machine<'a> {
    fn param_sig(&self, target: Target, i: usize) -> (bool, Ty) {
        match target {
            Target::Call(d) => {
                let b = &self.p.binders[self.p.defs[d].params[i]];
                (b.cns, b.ty)
            }
            Target::Ctor(inst, idx) | Target::Dtor(inst, idx) => self.p.insts[inst].xtors[idx].fields[i],
        }
    }

    /// Process arguments from `done.len()` on; returns the next state.
    fn args_step(&mut self, target: Target, mut done: Vec<V>, args: *const Vec<Arg>, scrut: *const T, env: Env, k: K) -> Result<State, Undefined> {
        let av = unsafe { &*args };
        while done.len() < av.len() {
            let i = done.len();
            let (cns, ty) = self.param_sig(target, i);
            match &av[i] {
                Arg::Covar(b) => {
                    let v = lookup(&env, *b).ok_or(Undefined::Internal("unbound covariable"))?;
                    done.push(v);
                }
                Arg::T(t) => {
                    if cns {
                        return Err(Undefined::Internal("term in consumer position"));
                    }
                    if self.p.is_codata(ty) {
                        // by name: variables pass their value, everything else is suspended
                        match t {
                            T::Var(b) => {
                                let v = lookup(&env, *b).ok_or(Undefined::Internal("unbound variable"))?;
                                done.push(v);
                            }
                            T::New { clauses, .. } => {
                                done.push(V::Obj(Rc::new(ObjClo { clauses: clauses as *const _, env: env.clone() })));
                            }
                            _ => done.push(V::Thunk(Rc::new(ThunkClo { term: t as *const T, env: env.clone() }))),
                        }
                    } else {
                        let fr = FrameK::Args { target, done, args, scrut, env: env.clone() };
                        return Ok(State::Eval(t as *const T, env, push(fr, &k)));
                    }
                }
            }
        }
        // all arguments are values
        match target {
            Target::Call(d) => {
                self.calls += 1;
                let def = &self.p.defs[d];
                let mut e: Env = None;
                for (b, v) in def.params.iter().zip(done) {
                    e = bind(&e, *b, v);
                }
                Ok(State::Eval(&def.body as *const T, e, k))
            }
            Target::Ctor(_, idx) => Ok(State::Ret(V::Data(idx, Rc::new(done)), k)),
            Target::Dtor(_, idx) => {
                let k2 = push(FrameK::Dtor { idx, args: done }, &k);
                Ok(State::Eval(scrut, env, k2))
            }
        }
    }

    fn exec(&mut self, mut st: State, lim: &Limits) -> Result<i64, Undefined> {
        loop {
            self.steps += 1;
            if self.steps > lim.steps {
                return Err(Undefined::Fuel);
            }
            st = match st {
                State::Eval(tp, env, k) => {
                    let t = unsafe { &*tp };
                    match t {
                        T::Lit(n) => State::Ret(V::Int(*n), k),
                        T::Var(b) => {
                            let v = lookup(&env, *b).ok_or(Undefined::Internal("unbound variable"))?;
                            State::Ret(v, k)
                        }
                        T::Op(a, op, b) => {
                            let k2 = push(FrameK::OpL(*op, &**b as *const T, env.clone()), &k);
                            State::Eval(&**a as *const T, env, k2)
                        }
                        T::If { cmp, fst, snd, thn, els, .. } => {
                            let f = match snd {
                                Some(s) => FrameK::IfL { cmp: *cmp, snd: &**s as *const T, thn: &**thn, els: &**els, env: env.clone() },
                                None => FrameK::IfZ { cmp: *cmp, thn: &**thn, els: &**els, env: env.clone() },
                            };
                            let k2 = push(f, &k);
                            State::Eval(&**fst as *const T, env, k2)
                        }
                        T::Print { newline, arg, next } => {
                            let k2 = push(FrameK::Print { newline: *newline, next: &**next, env: env.clone() }, &k);
                            State::Eval(&**arg as *const T, env, k2)
                        }
                        T::Let { b, bound, body } => {
                            let ty = self.p.binders[*b].ty;
                            if self.p.is_codata(ty) {
                                let v = match &**bound {
                                    T::Var(x) => lookup(&env, *x).ok_or(Undefined::Internal("unbound variable"))?,
                                    T::New { clauses, .. } => V::Obj(Rc::new(ObjClo { clauses: clauses as *const _, env: env.clone() })),
                                    other => V::Thunk(Rc::new(ThunkClo { term: other as *const T, env: env.clone() })),
                                };
                                let e2 = bind(&env, *b, v);
                                State::Eval(&**body as *const T, e2, k)
                            } else {
                                let k2 = push(FrameK::Let { b: *b, body: &**body, env: env.clone() }, &k);
                                State::Eval(&**bound as *const T, env, k2)
                            }
                        }
                        T::Call { def, args } => self.args_step(Target::Call(*def), Vec::new(), args as *const _, std::ptr::null(), env, k)?,
                        T::Ctor { inst, idx, args } => self.args_step(Target::Ctor(*inst, *idx), Vec::new(), args as *const _, std::ptr::null(), env, k)?,
                        T::Dtor { scrut, inst, idx, args } => {
                            self.args_step(Target::Dtor(*inst, *idx), Vec::new(), args as *const _, &**scrut as *const T, env, k)?
                        }
                        T::Case { scrut, clauses, .. } => {
                            let k2 = push(FrameK::Case { clauses: clauses as *const _, env: env.clone() }, &k);
                            State::Eval(&**scrut as *const T, env, k2)
                        }
                        T::New { clauses, .. } => State::Ret(V::Obj(Rc::new(ObjClo { clauses: clauses as *const _, env })), k),
                        T::Label { b, body } => {
                            let e2 = bind(&env, *b, V::Kont(k.clone()));
                            State::Eval(&**body as *const T, e2, k)
                        }
                        T::Goto { b, arg } => {
                            self.gotos += 1;
                            match lookup(&env, *b) {
                                Some(V::Kont(k2)) => State::Eval(&**arg as *const T, env, k2),
                                _ => return Err(Undefined::Internal("goto target is not a continuation")),
                            }
                        }
                        T::Exit(a) => {
                            let k2 = push(FrameK::Exit, &None);
                            State::Eval(&**a as *const T, env, k2)
                        }
                    }
                }
                State::Ret(v, k) => {
                    let Some(fr) = k else {
                        // falling off main
                        return match v {
                            V::Int(n) => Ok(n),
                            _ => Err(Undefined::Internal("main returned a non-integer")),
                        };
                    };
                    let next = fr.next.clone();
                    match &fr.f {
                        FrameK::OpL(op, b, env) => {
                            let V::Int(a) = v else { return Err(Undefined::Internal("operand not an integer")) };
                            State::Eval(*b, env.clone(), push(FrameK::OpR(*op, a), &next))
                        }
                        FrameK::OpR(op, a) => {
                            let V::Int(b) = v else { return Err(Undefined::Internal("operand not an integer")) };
                            match op.eval(*a, b) {
                                Some(r) => State::Ret(V::Int(r), next),
                                None => return Err(Undefined::Arith),
                            }
                        }
                        FrameK::IfL { cmp, snd, thn, els, env } => {
                            let V::Int(a) = v else { return Err(Undefined::Internal("operand not an integer")) };
                            let f = FrameK::IfR { cmp: *cmp, fst: a, thn: *thn, els: *els, env: env.clone() };
                            State::Eval(*snd, env.clone(), push(f, &next))
                        }
                        FrameK::IfR { cmp, fst, thn, els, env } => {
                            let V::Int(b) = v else { return Err(Undefined::Internal("operand not an integer")) };
                            let br = if cmp.eval(*fst, b) { *thn } else { *els };
                            State::Eval(br, env.clone(), next)
                        }
                        FrameK::IfZ { cmp, thn, els, env } => {
                            let V::Int(a) = v else { return Err(Undefined::Internal("operand not an integer")) };
                            let br = if cmp.eval(a, 0) { *thn } else { *els };
                            State::Eval(br, env.clone(), next)
                        }
                        FrameK::Print { newline, next: nx, env } => {
                            let V::Int(a) = v else { return Err(Undefined::Internal("print of a non-integer")) };
                            self.out.push(PrintEv { value: a, newline: *newline });
                            if self.out.len() > 100_000 {
                                return Err(Undefined::Fuel);
                            }
                            State::Eval(*nx, env.clone(), next)
                        }
                        FrameK::Let { b, body, env } => State::Eval(*body, bind(env, *b, v), next),
                        FrameK::Args { target, done, args, scrut, env } => {
                            let mut d = done.clone();
                            d.push(v);
                            self.args_step(*target, d, *args, *scrut, env.clone(), next)?
                        }
                        FrameK::Case { clauses, env } => {
                            let V::Data(idx, fields) = v else { return Err(Undefined::Internal("case on a non-data value")) };
                            let cl = unsafe { &**clauses };
                            let c = cl.get(idx).ok_or(Undefined::Internal("missing clause"))?;
                            let mut e = env.clone();
                            for (b, fv) in c.binders.iter().zip(fields.iter()) {
                                e = bind(&e, *b, fv.clone());
                            }
                            State::Eval(&c.body as *const T, e, next)
                        }
                        FrameK::Dtor { idx, args } => match v {
                            V::Obj(o) => {
                                let cl = unsafe { &*o.clauses };
                                let c = cl.get(*idx).ok_or(Undefined::Internal("missing coclause"))?;
                                let mut e = o.env.clone();
                                for (b, av) in c.binders.iter().zip(args.iter()) {
                                    e = bind(&e, *b, av.clone());
                                }
                                State::Eval(&c.body as *const T, e, next)
                            }
                            V::Thunk(th) => {
                                self.forces += 1;
                                // run the suspended term with the destructor frame as continuation
                                State::Eval(th.term, th.env.clone(), Some(fr.clone()))
                            }
                            _ => return Err(Undefined::Internal("destructor on a non-codata value")),
                        },
                        FrameK::Exit => {
                            let V::Int(a) = v else { return Err(Undefined::Internal("exit with a non-integer")) };
                            return Ok(a);
                        }
                    }
                }
            };
        }
    }
}
