//! Generator of well-typed NON-linear AxCut programs built directly with the public structs:
//! shapes the Fun pipeline never produces (variables duplicated inside one argument list, dead
//! variables at every statement kind, closures capturing scrambled subsets, objects with up to 8
//! fields of mixed kinds, environments far beyond the register files).

use crate::rng::Rng;
use axcut::syntax::statements::ifc::IfSort;
use axcut::syntax::statements::*;
use axcut::syntax::{BinOp, Chirality, ContextBinding, Def, Identifier, Prog, Statement, Ty, TypeDeclaration, TypingContext, XtorSig};
use std::rc::Rc;

fn ident(name: &str, id: usize) -> Identifier {
    Identifier { name: name.to_string(), id }
}

fn ty(name: &str) -> Ty {
    Ty::Decl(ident(name, 0))
}

fn b(name: &str, id: usize, chi: Chirality, t: Ty) -> ContextBinding {
    ContextBinding { var: ident(name, id), chi, ty: t }
}

#[derive(Clone, Debug)]
pub struct AxProfile {
    pub defs: usize,
    pub budget: usize,
    pub main_args: usize,
    pub many_vars: bool,
    pub prints: bool,
    pub wide: bool,
}

impl AxProfile {
    pub fn random(rng: &mut Rng, prints: bool) -> AxProfile {
        AxProfile { defs: 1 + rng.below(4), budget: [8, 14, 22, 35][rng.below(4)], main_args: rng.below(6), many_vars: rng.chance(1, 3), prints, wide: rng.chance(1, 2) }
    }
}

struct G<'r> {
    rng: &'r mut Rng,
    next_id: usize,
    types: Vec<TypeDeclaration>,
    /// names of the data-like types (let/switch) and closure-like types (create/invoke)
    data: Vec<String>,
    clos: Vec<String>,
    sigs: Vec<(Identifier, TypingContext, Option<usize>)>, // name, params, fuel param index
    prof: AxProfile,
}

type Env = Vec<ContextBinding>;

fn types(wide: bool) -> (Vec<TypeDeclaration>, Vec<String>, Vec<String>) {
    let e = |n: &str| b(n, 0, Chirality::Ext, Ty::I64);
    let p = |n: &str, t: &str| b(n, 0, Chirality::Prd, ty(t));
    let c = |n: &str, t: &str| b(n, 0, Chirality::Cns, ty(t));
    let decl = |name: &str, xs: Vec<(&str, Vec<ContextBinding>)>| TypeDeclaration {
        name: ident(name, 0),
        xtors: xs.into_iter().map(|(n, a)| XtorSig { name: ident(n, 0), args: TypingContext { bindings: a } }).collect(),
    };
    let mut ts = vec![
        decl("List", vec![("Nil", vec![]), ("Cons", vec![e("x"), p("xs", "List")])]),
        decl("Pair", vec![("Tup", vec![e("a"), e("b")])]),
        decl("Box", vec![("B", vec![p("l", "List")]), ("E", vec![]), ("P", vec![p("p", "Pair"), e("n")])]),
        decl("Cont", vec![("ret", vec![e("r")])]),
        decl("Fun", vec![("ap", vec![e("x"), c("k", "Cont")])]),
        decl("Obj", vec![("m1", vec![]), ("m2", vec![e("a"), p("l", "List")]), ("m3", vec![c("k", "Cont"), p("b", "Box")])]),
    ];
    let mut data = vec!["List".to_string(), "Pair".to_string(), "Box".to_string()];
    if wide {
        ts.push(decl(
            "Wide",
            vec![
                ("W8", vec![e("a"), p("l", "List"), e("b"), e("c"), p("q", "Pair"), e("d"), c("k", "Cont"), e("f")]),
                ("W5", vec![e("a"), e("b"), p("l", "List"), e("c"), e("d")]),
                ("W4", vec![p("l", "List"), p("m", "List"), e("c"), e("d")]),
                ("W0", vec![]),
            ],
        ));
        data.push("Wide".to_string());
    }
    (ts, data, vec!["Cont".to_string(), "Fun".to_string(), "Obj".to_string()])
}

impl<'r> G<'r> {
    fn fresh(&mut self, name: &str) -> Identifier {
        self.next_id += 1;
        ident(name, self.next_id)
    }

    fn decl(&self, name: &str) -> &TypeDeclaration {
        self.types.iter().find(|t| t.name.name == name).unwrap()
    }

    fn vars_of<'a>(&self, env: &'a Env, chi: &Chirality, t: &Ty) -> Vec<&'a ContextBinding> {
        env.iter().filter(|x| x.chi == *chi && x.ty == *t).collect()
    }

    fn ints<'a>(&self, env: &'a Env) -> Vec<&'a ContextBinding> {
        self.vars_of(env, &Chirality::Ext, &Ty::I64)
    }

    /// arguments for a signature, drawn from the environment with repetition allowed; values that
    /// are missing are created first (prefix statements returned as a wrapper)
    fn args_for(&mut self, sig: &TypingContext, env: &mut Env, pre: &mut Vec<Pre>) -> TypingContext {
        let mut out = Vec::new();
        for p in &sig.bindings {
            let cands: Vec<ContextBinding> = env.iter().filter(|x| x.chi == p.chi && x.ty == p.ty).cloned().collect();
            let pick = if !cands.is_empty() && self.rng.chance(4, 5) {
                cands[self.rng.below(cands.len())].clone()
            } else {
                let v = self.make_value(&p.chi, &p.ty, env, pre, 0);
                v
            };
            out.push(pick);
        }
        TypingContext { bindings: out }
    }

    /// create a fresh variable of the given kind/type (prefix statement), return its binding
    fn make_value(&mut self, chi: &Chirality, t: &Ty, env: &mut Env, pre: &mut Vec<Pre>, depth: usize) -> ContextBinding {
        match (chi, t) {
            (Chirality::Ext, _) => {
                let v = self.fresh("n");
                let lit = if self.rng.chance(1, 5) { self.rng.boundary_i64() } else { self.rng.range(-9, 40) };
                pre.push(Pre::Lit(lit, v.clone()));
                let bnd = ContextBinding { var: v, chi: Chirality::Ext, ty: Ty::I64 };
                env.push(bnd.clone());
                bnd
            }
            (Chirality::Prd, Ty::Decl(name)) => {
                let d = self.decl(&name.name).clone();
                // prefer a small constructor when nested deep
                let xi = if depth > 1 { d.xtors.iter().enumerate().min_by_key(|(_, x)| x.args.bindings.len()).map(|(i, _)| i).unwrap() } else { self.rng.below(d.xtors.len()) };
                let x = &d.xtors[xi];
                let mut args = Vec::new();
                for p in &x.args.bindings {
                    let cands: Vec<ContextBinding> = env.iter().filter(|y| y.chi == p.chi && y.ty == p.ty).cloned().collect();
                    if !cands.is_empty() && (depth > 0 || self.rng.chance(3, 4)) {
                        args.push(cands[self.rng.below(cands.len())].clone());
                    } else {
                        args.push(self.make_value(&p.chi, &p.ty, env, pre, depth + 1));
                    }
                }
                let v = self.fresh("o");
                pre.push(Pre::Let(v.clone(), t.clone(), x.name.clone(), TypingContext { bindings: args }));
                let bnd = ContextBinding { var: v, chi: Chirality::Prd, ty: t.clone() };
                env.push(bnd.clone());
                bnd
            }
            (Chirality::Cns, Ty::Decl(name)) => {
                // a closure with leaf bodies
                let d = self.decl(&name.name).clone();
                let mut clauses = Vec::new();
                for x in &d.xtors {
                    let params: Vec<ContextBinding> = x.args.bindings.iter().map(|p| ContextBinding { var: self.fresh(&p.var.name), chi: p.chi.clone(), ty: p.ty.clone() }).collect();
                    let mut e2 = env.clone();
                    e2.extend(params.iter().cloned());
                    let body = self.leaf_closure_body(&e2);
                    clauses.push(Clause { xtor: x.name.clone(), context: TypingContext { bindings: params }, body: Rc::new(body) });
                }
                let v = self.fresh("c");
                pre.push(Pre::Create(v.clone(), t.clone(), clauses));
                let bnd = ContextBinding { var: v, chi: Chirality::Cns, ty: t.clone() };
                env.push(bnd.clone());
                bnd
            }
            _ => unreachable!(),
        }
    }

    /// closure bodies never call definitions: exit or invoke a continuation in scope
    fn leaf_closure_body(&mut self, env: &Env) -> Statement {
        let conts: Vec<ContextBinding> = env.iter().filter(|x| x.chi == Chirality::Cns && x.ty == ty("Cont")).cloned().collect();
        let ints: Vec<ContextBinding> = self.ints(env).into_iter().cloned().collect();
        if !conts.is_empty() && !ints.is_empty() && self.rng.chance(2, 3) {
            let k = conts[self.rng.below(conts.len())].clone();
            let a = ints[self.rng.below(ints.len())].clone();
            return Statement::Invoke(Invoke { var: k.var, tag: ident("ret", 0), ty: ty("Cont"), args: TypingContext { bindings: vec![a] } });
        }
        if !ints.is_empty() {
            let a = ints[self.rng.below(ints.len())].clone();
            return Statement::Exit(Exit { var: a.var });
        }
        let v = self.fresh("z");
        Statement::Literal(Literal { lit: 3, var: v.clone(), next: Rc::new(Statement::Exit(Exit { var: v })), free_vars_next: None })
    }

    fn wrap(&self, pre: Vec<Pre>, last: Statement) -> Statement {
        let mut s = last;
        for p in pre.into_iter().rev() {
            s = match p {
                Pre::Lit(lit, var) => Statement::Literal(Literal { lit, var, next: Rc::new(s), free_vars_next: None }),
                Pre::Let(var, t, tag, args) => Statement::Let(Let { var, ty: t, tag, args, next: Rc::new(s), free_vars_next: None }),
                Pre::Create(var, t, clauses) => Statement::Create(Create { var, ty: t, context: None, clauses, free_vars_clauses: None, next: Rc::new(s), free_vars_next: None }),
                Pre::OpSub(a, bb, v) => Statement::Op(Op { fst: a, op: BinOp::Sub, snd: bb, var: v, next: Rc::new(s), free_vars_next: None }),
            };
        }
        s
    }

    fn stmt(&mut self, env: &Env, budget: usize, cur: usize, allow_self: bool, in_closure: bool) -> Statement {
        let mut env = env.clone();
        let ints: Vec<ContextBinding> = self.ints(&env).into_iter().cloned().collect();
        if budget <= 1 {
            return self.terminal(&mut env, cur, allow_self, in_closure);
        }
        let prds: Vec<ContextBinding> = env.iter().filter(|x| x.chi == Chirality::Prd).cloned().collect();
        let mut cands: Vec<(u8, u32)> = vec![(0, 5), (3, 6), (6, 4)]; // literal, let, create
        if ints.len() >= 1 {
            cands.push((1, 6)); // op
            cands.push((4, 3)); // if
            if self.prof.prints {
                cands.push((2, 3));
            }
        }
        if !prds.is_empty() {
            cands.push((5, 6)); // switch
        }
        cands.push((7, 2)); // terminal early
        let ws: Vec<u32> = cands.iter().map(|c| c.1).collect();
        match cands[self.rng.weighted(&ws)].0 {
            0 => {
                let v = self.fresh("n");
                let lit = if self.rng.chance(1, 4) { self.rng.boundary_i64() } else { self.rng.range(-20, 50) };
                env.push(ContextBinding { var: v.clone(), chi: Chirality::Ext, ty: Ty::I64 });
                let next = self.stmt(&env, budget - 1, cur, allow_self, in_closure);
                Statement::Literal(Literal { lit, var: v, next: Rc::new(next), free_vars_next: None })
            }
            1 => {
                let a = ints[self.rng.below(ints.len())].clone();
                let bb = ints[self.rng.below(ints.len())].clone();
                let op = [BinOp::Sum, BinOp::Sub, BinOp::Prod, BinOp::Sum, BinOp::Sub, BinOp::Div, BinOp::Rem][self.rng.below(7)].clone();
                let v = self.fresh("r");
                env.push(ContextBinding { var: v.clone(), chi: Chirality::Ext, ty: Ty::I64 });
                let next = self.stmt(&env, budget - 1, cur, allow_self, in_closure);
                Statement::Op(Op { fst: a.var, op, snd: bb.var, var: v, next: Rc::new(next), free_vars_next: None })
            }
            2 => {
                let a = ints[self.rng.below(ints.len())].clone();
                let next = self.stmt(&env, budget - 1, cur, allow_self, in_closure);
                Statement::PrintI64(PrintI64 { newline: self.rng.chance(1, 2), var: a.var, next: Rc::new(next), free_vars_next: None })
            }
            3 => {
                let tname = self.data[self.rng.below(self.data.len())].clone();
                let mut pre = Vec::new();
                let bnd = self.make_value(&Chirality::Prd, &ty(&tname), &mut env, &mut pre, 0);
                let _ = bnd;
                let next = self.stmt(&env, budget.saturating_sub(1 + pre.len()), cur, allow_self, in_closure);
                self.wrap(pre, next)
            }
            4 => {
                let a = ints[self.rng.below(ints.len())].clone();
                let snd = if self.rng.chance(2, 3) { Some(ints[self.rng.below(ints.len())].clone().var) } else { None };
                let sort = [IfSort::Equal, IfSort::NotEqual, IfSort::Less, IfSort::LessOrEqual, IfSort::Greater, IfSort::GreaterOrEqual][self.rng.below(6)];
                let t = self.stmt(&env, budget / 2, cur, allow_self, in_closure);
                let e = self.stmt(&env, budget / 2, cur, allow_self, in_closure);
                Statement::IfC(IfC { sort, fst: a.var, snd, thenc: Rc::new(t), elsec: Rc::new(e) })
            }
            5 => {
                let v = prds[self.rng.below(prds.len())].clone();
                let Ty::Decl(tn) = &v.ty else { unreachable!() };
                let d = self.decl(&tn.name).clone();
                let mut clauses = Vec::new();
                let share = budget / d.xtors.len().max(1);
                for x in &d.xtors {
                    let params: Vec<ContextBinding> = x.args.bindings.iter().map(|p| ContextBinding { var: self.fresh(&p.var.name), chi: p.chi.clone(), ty: p.ty.clone() }).collect();
                    let mut e2 = env.clone();
                    e2.extend(params.iter().cloned());
                    let body = self.stmt(&e2, share.max(1), cur, allow_self, in_closure);
                    clauses.push(Clause { xtor: x.name.clone(), context: TypingContext { bindings: params }, body: Rc::new(body) });
                }
                Statement::Switch(Switch { var: v.var, ty: v.ty, clauses, free_vars_clauses: None })
            }
            6 => {
                let tname = self.clos[self.rng.below(self.clos.len())].clone();
                let d = self.decl(&tname).clone();
                let mut clauses = Vec::new();
                for x in &d.xtors {
                    let params: Vec<ContextBinding> = x.args.bindings.iter().map(|p| ContextBinding { var: self.fresh(&p.var.name), chi: p.chi.clone(), ty: p.ty.clone() }).collect();
                    let mut e2 = env.clone();
                    e2.extend(params.iter().cloned());
                    let body = self.stmt(&e2, (budget / 3).max(1), cur, false, true);
                    clauses.push(Clause { xtor: x.name.clone(), context: TypingContext { bindings: params }, body: Rc::new(body) });
                }
                let v = self.fresh("c");
                env.push(ContextBinding { var: v.clone(), chi: Chirality::Cns, ty: ty(&tname) });
                let next = self.stmt(&env, budget / 2, cur, allow_self, in_closure);
                Statement::Create(Create { var: v, ty: ty(&tname), context: None, clauses, free_vars_clauses: None, next: Rc::new(next), free_vars_next: None })
            }
            _ => self.terminal(&mut env, cur, allow_self, in_closure),
        }
    }

    fn terminal(&mut self, env: &mut Env, cur: usize, allow_self: bool, in_closure: bool) -> Statement {
        let mut pre: Vec<Pre> = Vec::new();
        let mut options: Vec<u8> = vec![0];
        let closures: Vec<ContextBinding> = env.iter().filter(|x| x.chi == Chirality::Cns).cloned().collect();
        if !closures.is_empty() {
            options.push(1);
            options.push(1);
        }
        let callable: Vec<usize> = (0..self.sigs.len()).filter(|d| *d > cur || (*d == cur && allow_self)).collect();
        if !in_closure && !callable.is_empty() {
            options.push(2);
            options.push(2);
        }
        match options[self.rng.below(options.len())] {
            1 => {
                let c = closures[self.rng.below(closures.len())].clone();
                let Ty::Decl(tn) = &c.ty else { unreachable!() };
                let d = self.decl(&tn.name).clone();
                let x = d.xtors[self.rng.below(d.xtors.len())].clone();
                let args = self.args_for(&x.args, env, &mut pre);
                let s = Statement::Invoke(Invoke { var: c.var, tag: x.name, ty: c.ty, args });
                self.wrap(pre, s)
            }
            2 => {
                let d = callable[self.rng.below(callable.len())];
                let (name, params, fuel) = self.sigs[d].clone();
                let mut args = self.args_for(&params, env, &mut pre);
                if let Some(fi) = fuel {
                    // fuel argument: decreasing on self calls, a small literal otherwise
                    let v = self.fresh("fuel");
                    if d == cur {
                        let own = self.sigs[cur].1.bindings[self.sigs[cur].2.unwrap()].var.clone();
                        let one = self.fresh("one");
                        pre.push(Pre::Lit(1, one.clone()));
                        pre.push(Pre::OpSub(own, one, v.clone()));
                    } else {
                        pre.push(Pre::Lit(self.rng.range(0, 3), v.clone()));
                    }
                    args.bindings[fi] = ContextBinding { var: v, chi: Chirality::Ext, ty: Ty::I64 };
                }
                let s = Statement::Call(Call { label: name, args });
                self.wrap(pre, s)
            }
            _ => {
                let ints: Vec<ContextBinding> = self.ints(env).into_iter().cloned().collect();
                let v = if !ints.is_empty() {
                    ints[self.rng.below(ints.len())].clone()
                } else {
                    self.make_value(&Chirality::Ext, &Ty::I64, env, &mut pre, 0)
                };
                self.wrap(pre, Statement::Exit(Exit { var: v.var }))
            }
        }
    }

}

enum Pre {
    Lit(i64, Identifier),
    Let(Identifier, Ty, Identifier, TypingContext),
    Create(Identifier, Ty, Vec<Clause>),
    OpSub(Identifier, Identifier, Identifier),
}

pub fn generate(rng: &mut Rng, prof: AxProfile) -> Prog {
    let (ts, data, clos) = types(prof.wide);
    let mut g = G { rng, next_id: 0, types: ts, data, clos, sigs: Vec::new(), prof: prof.clone() };
    // signatures
    let mut main_params = Vec::new();
    for _ in 0..prof.main_args {
        let v = g.fresh("arg");
        main_params.push(ContextBinding { var: v, chi: Chirality::Ext, ty: Ty::I64 });
    }
    g.sigs.push((ident("main", 0), TypingContext { bindings: main_params }, None));
    for d in 0..prof.defs {
        let mut params = Vec::new();
        let recursive = g.rng.chance(1, 2);
        let mut fuel = None;
        if recursive {
            fuel = Some(0);
            params.push(ContextBinding { var: g.fresh("fuel"), chi: Chirality::Ext, ty: Ty::I64 });
        }
        let n = if prof.many_vars { 3 + g.rng.below(14) } else { g.rng.below(5) };
        for _ in 0..n {
            let (chi, t) = match g.rng.below(6) {
                0..=2 => (Chirality::Ext, Ty::I64),
                3..=4 => (Chirality::Prd, ty(&g.data[g.rng.below(g.data.len())].clone())),
                _ => (Chirality::Cns, ty(&g.clos[g.rng.below(g.clos.len())].clone())),
            };
            let v = g.fresh("p");
            params.push(ContextBinding { var: v, chi, ty: t });
        }
        g.sigs.push((ident(&format!("f{d}"), 0), TypingContext { bindings: params }, fuel));
    }
    // bodies
    let mut defs = Vec::new();
    for d in 0..g.sigs.len() {
        let (name, params, fuel) = g.sigs[d].clone();
        let env: Env = params.bindings.clone();
        let budget = g.prof.budget;
        let body = match fuel {
            Some(fi) => {
                let base = g.stmt(&env, budget / 3 + 1, d, false, false);
                let rec = g.stmt(&env, budget, d, true, false);
                Statement::IfC(IfC { sort: IfSort::LessOrEqual, fst: params.bindings[fi].var.clone(), snd: None, thenc: Rc::new(base), elsec: Rc::new(rec) })
            }
            None => g.stmt(&env, budget, d, false, false),
        };
        defs.push(Def { name, context: params, body });
    }
    Prog { defs, types: g.types.clone(), max_id: g.next_id }
}
