#![allow(dead_code)]
#![allow(clippy::all)]
mod apr;
mod cek;
mod core_eta;
mod core_shadow;
mod gen_axcut;
mod gen_fun;
mod emu;
mod json;
mod mutate;
mod sem_axcut;
mod sem_core;
mod native;
mod pipeline;
pub mod props;
mod rng;
mod trace;
mod ty_axcut;
mod ty_core;

use std::env;

fn main() {
    let h = std::thread::Builder::new().stack_size(std::env::var("STACK_MB").ok().and_then(|s| s.parse::<usize>().ok()).unwrap_or(2048) << 20).spawn(real_main).unwrap();
    let code = h.join().unwrap_or(3);
    std::process::exit(code);
}

fn real_main() -> i32 {
    let args: Vec<String> = env::args().collect();
    match args.get(1).map(|s| s.as_str()) {
        Some("gen") => {
            let seed: u64 = args.get(2).and_then(|s| s.parse().ok()).unwrap_or(1);
            let mut rng = rng::Rng::new(seed);
            let prof = gen_fun::Profile::random(&mut rng, gen_fun::EffectMode::Sequenced);
            eprintln!("// {}", prof.describe());
            pipeline::install_quiet_panic_hook();
            let (p, feats) = gen_fun::generate(&mut rng, prof);
            println!("{}", apr::print_prog(&p, apr::Naming::Policy));
            let n = p.defs[p.main].params.len();
            let a: Vec<i64> = (0..n as i64).collect();
            let (out, st) = cek::run(&p, &a, &cek::Limits::default());
            eprintln!("// cek: {} steps={} feats={:?}", out.short(), st.steps, feats);
        }
        Some("e2e") => {
            pipeline::install_quiet_panic_hook();
            let seed0: u64 = args.get(2).and_then(|s| s.parse().ok()).unwrap_or(1);
            let n: u64 = args.get(3).and_then(|s| s.parse().ok()).unwrap_or(1);
            let mut wd = native::Workdir::new("e2e");
            let mut stats = std::collections::BTreeMap::<String, u64>::new();
            for seed in seed0..seed0 + n {
                let mut rng = rng::Rng::new(seed);
                let anywhere = std::env::var("EFFECTS").as_deref() == Ok("anywhere");
                let prof = gen_fun::Profile::random(&mut rng, if anywhere { gen_fun::EffectMode::Anywhere } else { gen_fun::EffectMode::Sequenced });
                let (p, _feats) = gen_fun::generate(&mut rng, prof.clone());
                let src = apr::print_prog(&p, apr::Naming::Policy);
                let nargs = p.defs[p.main].params.len();
                let a: Vec<i64> = (0..nargs).map(|_| rng.small_i64()).collect();
                let (refo, _st) = cek::run(&p, &a, &cek::Limits::default());
                let verdict = (|| -> String {
                    let st = match pipeline::all_stages(&src) { Ok(s) => s, Err(e) => return format!("STAGE {}", e.describe()) };
                    let ir = sem_core::from_prog(&st.core);
                    let (c1, cs1) = sem_core::run(&ir, &a, &Default::default());
                    let irf = sem_core::from_fsprog(&st.focused);
                    let (c2, cs2) = sem_core::run(&irf, &a, &Default::default());
                    if anywhere {
                        if !c1.defined() { return format!("UNDEF-CORE {:?}", c1.end); }
                        if let Some(d) = trace::diff(&c1, &c2) { return format!("FOCUS {d}"); }
                        let (o1, _) = sem_axcut::run(&st.shrunk, &a, sem_axcut::Mode::Named, &Default::default());
                        if let Some(d) = trace::diff(&c1, &o1) { return format!("SHRINK {d}"); }
                        let (o2, _) = sem_axcut::run(&st.linear, &a, sem_axcut::Mode::Positional, &Default::default());
                        if let Some(d) = trace::diff(&c1, &o2) { return format!("LIN {d}"); }
                        if refo.defined() { if let Some(d) = trace::diff(&refo, &c1) { return format!("CEKDIFF(expected sometimes) {d}"); } }
                        return "OK".into();
                    }
                    if refo.defined() {
                        if let Some(d) = trace::diff(&refo, &c1) { return format!("CORE {d}"); }
                        if let Some(d) = trace::diff(&refo, &c2) { return format!("FSCORE {d}"); }
                        if cs2.arg_frames > 0 { return format!("FSCORE-FRAMES {}", cs2.arg_frames); }
                        let _ = cs1;
                    }
                    let (o1, _) = sem_axcut::run(&st.shrunk, &a, sem_axcut::Mode::Named, &Default::default());
                    let (o2, _) = sem_axcut::run(&st.linear, &a, sem_axcut::Mode::Positional, &Default::default());
                    if refo.defined() {
                        if let Some(d) = trace::diff(&refo, &o1) { return format!("AXNAMED {d}"); }
                        if let Some(d) = trace::diff(&refo, &o2) { return format!("AXLIN {d}"); }
                    }
                    let asm = match pipeline::x86(st.linear) { Ok(a) => a, Err(e) => return format!("CODEGEN {}", e.describe()) };
                    let prog = match emu::x86::parse(&asm.text) { Ok(p) => p, Err(e) => return format!("EMUPARSE {e}") };
                    let er = emu::x86::run(&prog, &a, &Default::default());
                    if let Some(v) = &er.violation { return format!("EMUVIOL {:?} line {} {}", v.kind, v.pc_line, v.msg); }
                    if refo.defined() {
                        if let Some(d) = trace::diff(&refo, &er.outcome) { return format!("EMU {d}"); }
                    }
                    if std::env::var("NO_NATIVE").is_ok() { return "OK".into(); }
                    let exe = match wd.build_x86(&asm.text, asm.nargs, None) { Ok(e) => e, Err(e) => return format!("BUILD {:?}", e) };
                    let mut cmd = std::process::Command::new(&exe);
                    for x in &a { cmd.arg(x.to_string()); }
                    let r = native::run_exe(&mut cmd, std::time::Duration::from_secs(10)).unwrap();
                    let _ = std::fs::remove_file(&exe);
                    if !refo.defined() { return format!("UNDEF-REF {:?}", refo.end); }
                    let want = refo.render();
                    let code = (refo.end.clone().unwrap() & 0xff) as i32;
                    if r.stdout == want && r.status == Some(code) { "OK".into() } else {
                        format!("MISMATCH want={:?}/{} got={:?}/{:?} sig={:?}", String::from_utf8_lossy(&want), code, String::from_utf8_lossy(&r.stdout), r.status, r.signal)
                    }
                })();
                let key: String = verdict.chars().take(60).collect();
                *stats.entry(key.split(' ').next().unwrap().to_string()).or_insert(0) += 1;
                if verdict != "OK" {
                    println!("seed {seed}: {verdict} [{}] args={a:?}", prof.describe());
                }
            }
            println!("{stats:?}");
        }
        Some("worker") => {
            pipeline::install_quiet_panic_hook();
            let get = |k: &str| -> Option<String> { args.iter().position(|a| a == k).and_then(|i| args.get(i + 1).cloned()) };
            let prop = get("--prop").expect("--prop");
            let tier = if get("--tier").as_deref() == Some("thorough") { props::Tier::Thorough } else { props::Tier::Quick };
            let seed: u64 = get("--seed").and_then(|s| s.parse().ok()).unwrap_or(1);
            let shard: usize = get("--shard").and_then(|s| s.parse().ok()).unwrap_or(0);
            let nshards: usize = get("--nshards").and_then(|s| s.parse().ok()).unwrap_or(1);
            let budget: u64 = get("--budget-s").and_then(|s| s.parse().ok()).unwrap_or(30);
            let ctx = props::Ctx { prop: prop.clone(), tier, seed, shard, nshards, budget: std::time::Duration::from_secs(budget), start: std::time::Instant::now() };
            let mut acc = props::Acc::default();
            let res = props::run_prop(&ctx, &mut acc);
            let mut j = acc.to_json();
            j.set("prop", json::J::s(prop));
            j.set("shard", json::J::i(shard as i64));
            j.set("wall_s", json::J::Num(ctx.start.elapsed().as_secs_f64()));
            if let Err(e) = res { j.set("error", json::J::s(e)); }
            println!("{}", j.to_string());
        }
        Some("replay") => {
            pipeline::install_quiet_panic_hook();
            let text = std::fs::read_to_string(&args[2]).expect("replay file");
            let j = json::parse(&text).expect("replay json");
            let prop = j.get("property").and_then(|s| s.as_str()).expect("property").to_string();
            let payload = j.get("replay").cloned().unwrap_or(json::J::obj());
            let mut acc = props::Acc::default();
            let res = props::replay_prop(&prop, &payload, &mut acc);
            let mut out = acc.to_json();
            out.set("prop", json::J::s(prop));
            if let Err(e) = res { out.set("error", json::J::s(e)); }
            println!("{}", out.to_string());
        }
        Some("emutest") => {
            // emutest <isa> <seed0> <n> : AxCut positional machine vs emulator on generated programs
            pipeline::install_quiet_panic_hook();
            let isa = props::backend::Isa::from_name(&args[2]).expect("isa: x86_64|aarch64|rv64");
            let seed0: u64 = args.get(3).and_then(|s| s.parse().ok()).unwrap_or(1);
            let n: u64 = args.get(4).and_then(|s| s.parse().ok()).unwrap_or(100);
            let mut stats = std::collections::BTreeMap::<String, u64>::new();
            for seed in seed0..seed0 + n {
                let case = props::chain::gen_fun_case(seed, gen_fun::EffectMode::Anywhere, |p, _| { if isa == props::backend::Isa::Rv { p.prints = 0; } });
                let st = match props::chain::stages(&case.src) { Ok(s) => s, Err(_) => { *stats.entry("stage-error".into()).or_insert(0) += 1; continue; } };
                for a in case.args.iter().take(2) {
                    let (reference, axst) = sem_axcut::run(&st.linear, a, sem_axcut::Mode::Positional, &Default::default());
                    if !reference.defined() { *stats.entry("ref-undefined".into()).or_insert(0) += 1; continue; }
                    if isa == props::backend::Isa::Rv && (!reference.prints.is_empty() || axst.max_env > 14) { *stats.entry("rv-out-of-domain".into()).or_insert(0) += 1; continue; }
                    let asm = match props::backend::codegen(isa, st.linear.clone()) { Ok(x) => x, Err(e) => { *stats.entry(format!("codegen: {}", e.describe().chars().take(50).collect::<String>())).or_insert(0) += 1; continue; } };
                    let verdict = match props::backend::emulate(isa, &asm.text, a, &Default::default()) {
                        Err(e) => format!("PARSE {e}"),
                        Ok(r) => {
                            if let Some(v) = &r.violation { format!("VIOL {:?} line {}: {}", v.kind, v.pc_line, v.msg) }
                            else if let Some(d) = trace::diff(&reference, &r.outcome) { format!("DIFF {d}") }
                            else { "OK".to_string() }
                        }
                    };
                    if verdict != "OK" {
                        println!("seed {seed} args {a:?}: {verdict}");
                        if std::env::var("EMUTEST_DUMP").is_ok() {
                            std::fs::write(format!("/tmp/emutest-{seed}.sc"), &case.src).unwrap();
                            std::fs::write(format!("/tmp/emutest-{seed}.asm"), &asm.text).unwrap();
                        }
                    }
                    *stats.entry(verdict.split(' ').next().unwrap().to_string()).or_insert(0) += 1;
                }
            }
            println!("{stats:?}");
        }
        Some("printstages") => {
            // printstages <file> [warmup files...] : compile the warm-up files first, then print all stages of <file>
            pipeline::install_quiet_panic_hook();
            for w in args.iter().skip(3) {
                if let Ok(src) = std::fs::read_to_string(w) {
                    let _ = props::c17::print_stages(&src);
                }
            }
            let src = std::fs::read_to_string(&args[2]).expect("file");
            let m = props::c17::print_stages(&src);
            let mut j = json::J::obj();
            for (k, v) in m {
                j.set(&k, json::J::s(v));
            }
            println!("{}", j.to_string());
        }
        Some("dump") => {
            use printer::Print;
            pipeline::install_quiet_panic_hook();
            let src = std::fs::read_to_string(&args[2]).unwrap();
            let what = args.get(3).map(|s| s.as_str()).unwrap_or("all");
            let checked = pipeline::front(&src).unwrap_or_else(|e| panic!("{}", e.describe()));
            let core = pipeline::to_core(checked).unwrap();
            if what == "all" || what == "core" { println!("=== core\n{}", core.print_to_string(None)); }
            let fs = pipeline::focus(core).unwrap();
            if what == "all" || what == "focused" { println!("=== focused\n{}", fs.print_to_string(None)); }
            let sh = pipeline::shrink(fs).unwrap();
            if what == "all" || what == "shrunk" { println!("=== shrunk\n{}", sh.print_to_string(None)); }
            let lin = pipeline::linearize(sh).unwrap();
            if what == "all" || what == "linear" { println!("=== linear\n{}", lin.print_to_string(None)); }
            if what == "x86" { println!("{}", pipeline::x86(lin).unwrap().text); }
            else if what == "a64" { println!("{}", pipeline::a64(lin).unwrap().text); }
            else if what == "rv" { println!("{}", pipeline::rv64(lin).unwrap().text); }
        }
        Some("wide") => {
            // scc-verif wide <n> <closure:0|1> <k> <pattern>: print a directed wide-sharing program
            let g = |i: usize| args.get(i).and_then(|s| s.parse::<usize>().ok()).unwrap_or(0);
            print!("{}", props::directed::wide_shared_program(g(2), g(3) == 1, g(4), g(5)));
        }
        Some("sharing") => {
            // scc-verif sharing <l> <closure:0|1> <k>: print a directed sharing program
            let l: usize = args[2].parse().unwrap();
            let c = args[3] == "1";
            let k: usize = args[4].parse().unwrap();
            print!("{}", props::directed::sharing_program(l, c, k));
        }
        Some("runsrc") => {
            // scc-verif runsrc <file> <x86_64|aarch64|rv64> [args...]: reference vs emulator (HEAPMON=0 turns the heap monitor off)
            pipeline::install_quiet_panic_hook();
            let src = std::fs::read_to_string(&args[2]).unwrap();
            let isa = props::backend::Isa::from_name(&args[3]).expect("isa");
            let a: Vec<i64> = args[4..].iter().map(|x| x.parse().unwrap()).collect();
            let st = pipeline::all_stages(&src).unwrap_or_else(|e| panic!("{}", e.describe()));
            let (reference, _) = sem_axcut::run(&st.linear, &a, sem_axcut::Mode::Positional, &Default::default());
            println!("reference: prints {:?} end {:?}", reference.prints.iter().map(|p| p.value).collect::<Vec<_>>(), reference.end);
            let asm = props::backend::codegen(isa, st.linear.clone()).unwrap_or_else(|e| panic!("{}", e.describe()));
            let cfg = emu::EmuConfig { heap_check_every: if std::env::var("HEAPMON").as_deref() == Ok("0") { 0 } else { 1 }, ..Default::default() };
            let r = props::backend::emulate(isa, &asm.text, &a, &cfg).unwrap();
            println!("emulator:  prints {:?} end {:?}", r.outcome.prints.iter().map(|p| p.value).collect::<Vec<_>>(), r.outcome.end);
            if let Some(v) = r.violation {
                println!("violation: line {} {:?} {}", v.pc_line, v.kind, v.msg);
            }
        }
        _ => eprintln!("usage"),
    }
    0
}
