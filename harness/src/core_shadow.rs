//! Semantics-preserving introduction of shadowing into (not yet uniquified) Core programs: a
//! binder (mu, mu-tilde, clause binder) is renamed to the name of an enclosing parameter or binder
//! of the same kind that does not occur in the binder's scope.  The Fun translation makes all
//! binders distinct, so shadowing in Core input exists only in such hand-built programs; the
//! focusing property (C03) quantifies over those as well.

use crate::rng::Rng;
use core_lang::syntax as cs;
use cs::arguments::Argument;
use cs::{Statement, Term};
use std::rc::Rc;

// ---------------------------------------------------------------- occurrences

fn mentions_args(a: &cs::Arguments, name: &str) -> bool {
    a.entries.iter().any(|e| match e {
        Argument::Producer(t) => mentions_tm(t, name),
        Argument::Consumer(t) => mentions_tm(t, name),
    })
}

fn mentions_tm<T: cs::terms::Chi>(t: &Term<T>, name: &str) -> bool {
    match t {
        Term::XVar(v) => v.var.name == name,
        Term::Literal(_) => false,
        Term::Op(o) => mentions_tm(&o.fst, name) || mentions_tm(&o.snd, name),
        Term::Mu(m) => m.variable.name == name || mentions_st(&m.statement, name),
        Term::Xtor(x) => mentions_args(&x.args, name),
        Term::XCase(c) => c.clauses.iter().any(|cl| cl.context.bindings.iter().any(|b| b.var.name == name) || mentions_st(&cl.body, name)),
    }
}

/// does `name` occur in the statement in any role (use or binder)?
pub fn mentions_st(s: &Statement, name: &str) -> bool {
    match s {
        Statement::Cut(c) => mentions_tm(&c.producer, name) || mentions_tm(&c.consumer, name),
        Statement::IfC(i) => mentions_tm(&i.fst, name) || i.snd.as_ref().is_some_and(|x| mentions_tm(x, name)) || mentions_st(&i.thenc, name) || mentions_st(&i.elsec, name),
        Statement::PrintI64(p) => mentions_tm(&p.arg, name) || mentions_st(&p.next, name),
        Statement::Call(c) => mentions_args(&c.args, name),
        Statement::Exit(e) => mentions_tm(&e.arg, name),
    }
}

// ---------------------------------------------------------------- renaming of free occurrences

/// a (co)variable is identified by name and id
type Key = (String, usize);

fn is(i: &cs::Identifier, k: &Key) -> bool {
    i.name == k.0 && i.id == k.1
}

fn ren_args(a: cs::Arguments, from: &Key, to: &Key) -> cs::Arguments {
    cs::Arguments {
        entries: a
            .entries
            .into_iter()
            .map(|e| match e {
                Argument::Producer(t) => Argument::Producer(ren_tm(t, from, to)),
                Argument::Consumer(t) => Argument::Consumer(ren_tm(t, from, to)),
            })
            .collect(),
    }
}

fn ren_rc<T: cs::terms::Chi>(t: Rc<Term<T>>, from: &Key, to: &Key) -> Rc<Term<T>> {
    Rc::new(ren_tm(Rc::unwrap_or_clone(t), from, to))
}

fn ren_tm<T: cs::terms::Chi>(t: Term<T>, from: &Key, to: &Key) -> Term<T> {
    match t {
        Term::XVar(mut v) => {
            if is(&v.var, from) {
                v.var.name = to.0.clone();
                v.var.id = to.1;
            }
            Term::XVar(v)
        }
        Term::Literal(_) => t,
        Term::Op(mut o) => {
            o.fst = ren_rc(o.fst, from, to);
            o.snd = ren_rc(o.snd, from, to);
            Term::Op(o)
        }
        Term::Mu(mut m) => {
            if !is(&m.variable, from) {
                m.statement = Rc::new(ren_st(Rc::unwrap_or_clone(m.statement), from, to));
            }
            Term::Mu(m)
        }
        Term::Xtor(mut x) => {
            x.args = ren_args(x.args, from, to);
            Term::Xtor(x)
        }
        Term::XCase(mut c) => {
            c.clauses = c
                .clauses
                .into_iter()
                .map(|mut cl| {
                    if !cl.context.bindings.iter().any(|b| is(&b.var, from)) {
                        cl.body = Rc::new(ren_st(Rc::unwrap_or_clone(cl.body), from, to));
                    }
                    cl
                })
                .collect();
            Term::XCase(c)
        }
    }
}

fn ren_st(s: Statement, from: &Key, to: &Key) -> Statement {
    match s {
        Statement::Cut(mut c) => {
            c.producer = ren_rc(c.producer, from, to);
            c.consumer = ren_rc(c.consumer, from, to);
            Statement::Cut(c)
        }
        Statement::IfC(mut i) => {
            i.fst = ren_rc(i.fst, from, to);
            i.snd = i.snd.map(|x| ren_rc(x, from, to));
            i.thenc = Rc::new(ren_st(Rc::unwrap_or_clone(i.thenc), from, to));
            i.elsec = Rc::new(ren_st(Rc::unwrap_or_clone(i.elsec), from, to));
            Statement::IfC(i)
        }
        Statement::PrintI64(mut p) => {
            p.arg = ren_rc(p.arg, from, to);
            p.next = Rc::new(ren_st(Rc::unwrap_or_clone(p.next), from, to));
            Statement::PrintI64(p)
        }
        Statement::Call(mut c) => {
            c.args = ren_args(c.args, from, to);
            Statement::Call(c)
        }
        Statement::Exit(mut e) => {
            e.arg = ren_rc(e.arg, from, to);
            Statement::Exit(e)
        }
    }
}

// ---------------------------------------------------------------- the pass

pub struct Shadow<'r> {
    pub rng: &'r mut Rng,
    pub applied: u64,
    /// next non-zero id for binders that are numbered by hand (hand-built programs may mix
    /// numbered and unnumbered binders)
    pub next_id: usize,
    pub numbered: u64,
}

/// names in scope with their kind (true = covariable)
type Scope = Vec<(String, bool)>;

impl<'r> Shadow<'r> {
    /// a name of the same kind in scope that the body does not mention
    fn candidate(&mut self, scope: &Scope, covar: bool, own: &str, body: &Statement, avoid: &[String]) -> Option<String> {
        if !self.rng.chance(1, 2) {
            return None;
        }
        let c: Vec<&String> = scope.iter().filter(|(n, k)| *k == covar && n != own && !avoid.contains(n) && !mentions_st(body, n)).map(|(n, _)| n).collect();
        if c.is_empty() { None } else { Some(c[self.rng.below(c.len())].clone()) }
    }

    fn mu<T: cs::terms::Chi>(&mut self, mut m: cs::Mu<T>, scope: &Scope) -> cs::Mu<T> {
        // a producer mu binds a covariable, a consumer mu (mu-tilde) binds a variable
        let covar = m.prdcns.is_prd();
        let mut body = Rc::unwrap_or_clone(m.statement);
        if m.variable.id == 0 && self.rng.chance(1, 5) {
            // a binder numbered by hand: same name, a non-zero id of its own
            let id = self.next_id;
            self.next_id += 1;
            body = ren_st(body, &(m.variable.name.clone(), 0), &(m.variable.name.clone(), id));
            m.variable.id = id;
            self.numbered += 1;
        } else if let Some(new) = self.candidate(scope, covar, &m.variable.name, &body, &[]) {
            body = ren_st(body, &(m.variable.name.clone(), m.variable.id), &(new.clone(), m.variable.id));
            m.variable.name = new;
            self.applied += 1;
        }
        let mut inner = scope.clone();
        inner.push((m.variable.name.clone(), covar));
        m.statement = Rc::new(self.st(body, &inner));
        m
    }

    fn clauses<T: cs::terms::Chi>(&mut self, cls: Vec<cs::Clause<T, Statement>>, scope: &Scope) -> Vec<cs::Clause<T, Statement>> {
        cls.into_iter()
            .map(|mut cl| {
                let mut body = Rc::unwrap_or_clone(cl.body);
                let n = cl.context.bindings.len();
                for i in 0..n {
                    let covar = cl.context.bindings[i].chi == cs::Chirality::Cns;
                    let own = cl.context.bindings[i].var.name.clone();
                    let others: Vec<String> = cl.context.bindings.iter().map(|b| b.var.name.clone()).collect();
                    if let Some(new) = self.candidate(scope, covar, &own, &body, &others) {
                        let id = cl.context.bindings[i].var.id;
                        body = ren_st(body, &(own.clone(), id), &(new.clone(), id));
                        cl.context.bindings[i].var.name = new;
                        self.applied += 1;
                    }
                }
                let mut inner = scope.clone();
                for b in &cl.context.bindings {
                    inner.push((b.var.name.clone(), b.chi == cs::Chirality::Cns));
                }
                cl.body = Rc::new(self.st(body, &inner));
                cl
            })
            .collect()
    }

    fn args(&mut self, a: cs::Arguments, scope: &Scope) -> cs::Arguments {
        cs::Arguments {
            entries: a
                .entries
                .into_iter()
                .map(|e| match e {
                    Argument::Producer(t) => Argument::Producer(self.tm(t, scope)),
                    Argument::Consumer(t) => Argument::Consumer(self.tm(t, scope)),
                })
                .collect(),
        }
    }

    fn rc<T: cs::terms::Chi>(&mut self, t: Rc<Term<T>>, scope: &Scope) -> Rc<Term<T>> {
        Rc::new(self.tm(Rc::unwrap_or_clone(t), scope))
    }

    fn tm<T: cs::terms::Chi>(&mut self, t: Term<T>, scope: &Scope) -> Term<T> {
        match t {
            Term::XVar(_) | Term::Literal(_) => t,
            Term::Op(mut o) => {
                o.fst = self.rc(o.fst, scope);
                o.snd = self.rc(o.snd, scope);
                Term::Op(o)
            }
            Term::Mu(m) => Term::Mu(self.mu(m, scope)),
            Term::Xtor(mut x) => {
                x.args = self.args(x.args, scope);
                Term::Xtor(x)
            }
            Term::XCase(mut c) => {
                c.clauses = self.clauses(c.clauses, scope);
                Term::XCase(c)
            }
        }
    }

    pub fn st(&mut self, s: Statement, scope: &Scope) -> Statement {
        match s {
            Statement::Cut(mut c) => {
                c.producer = self.rc(c.producer, scope);
                c.consumer = self.rc(c.consumer, scope);
                Statement::Cut(c)
            }
            Statement::IfC(mut i) => {
                i.fst = self.rc(i.fst, scope);
                i.snd = i.snd.map(|x| self.rc(x, scope));
                i.thenc = Rc::new(self.st(Rc::unwrap_or_clone(i.thenc), scope));
                i.elsec = Rc::new(self.st(Rc::unwrap_or_clone(i.elsec), scope));
                Statement::IfC(i)
            }
            Statement::PrintI64(mut p) => {
                p.arg = self.rc(p.arg, scope);
                p.next = Rc::new(self.st(Rc::unwrap_or_clone(p.next), scope));
                Statement::PrintI64(p)
            }
            Statement::Call(mut c) => {
                c.args = self.args(c.args, scope);
                Statement::Call(c)
            }
            Statement::Exit(mut e) => {
                e.arg = self.rc(e.arg, scope);
                Statement::Exit(e)
            }
        }
    }
}

/// variant of a (not yet uniquified) Core program with shadowing binders; returns the number of
/// binders renamed
pub fn introduce(p: &cs::Prog, rng: &mut Rng) -> (cs::Prog, u64) {
    let mut sh = Shadow { rng, applied: 0, next_id: p.max_id + 1, numbered: 0 };
    let mut q = p.clone();
    q.defs = q
        .defs
        .into_iter()
        .map(|mut d| {
            let scope: Scope = d.context.bindings.iter().map(|b| (b.var.name.clone(), b.chi == cs::Chirality::Cns)).collect();
            d.body = sh.st(d.body, &scope);
            d
        })
        .collect();
    q.max_id = q.max_id.max(sh.next_id - 1);
    (q, sh.applied + sh.numbered)
}
