//! Semantics-preserving eta-expansions of Core programs: produce well-typed Core programs with
//! argument shapes the Fun translation never emits (mu-tilde / mu abstractions and cases in
//! argument positions, at data, integer and codata types), as extra inputs for the focusing check.

use crate::rng::Rng;
use core_lang::syntax as cs;
use cs::arguments::Argument;
use cs::{Identifier, Mu, Statement, Term, Ty, XVar};
use std::rc::Rc;

pub struct Eta<'r> {
    pub rng: &'r mut Rng,
    pub counter: usize,
    pub applied: u64,
    pub data: Vec<cs::DataDeclaration>,
}

impl<'r> Eta<'r> {
    fn fresh(&mut self, base: &str) -> Identifier {
        self.counter += 1;
        Identifier::new(format!("eta_{base}{}", self.counter))
    }

    fn wrap_prd(&mut self, t: Term<cs::Prd>, ty: Ty) -> Term<cs::Prd> {
        // p  ~>  mu b. <p | b>
        self.applied += 1;
        let b = self.fresh("b");
        Term::Mu(Mu {
            prdcns: cs::Prd,
            variable: b.clone(),
            statement: Rc::new(Statement::Cut(cs::Cut { producer: Rc::new(t), ty: ty.clone(), consumer: Rc::new(Term::XVar(XVar { prdcns: cs::Cns, var: b, ty: ty.clone() })) })),
            ty,
        })
    }

    fn wrap_cns(&mut self, t: Term<cs::Cns>, ty: Ty) -> Term<cs::Cns> {
        self.applied += 1;
        // for data types sometimes a full case expansion: case { K(xs) => <K(xs) | c> }
        if let Ty::Decl(name) = &ty {
            if let Some(decl) = self.data.iter().find(|d| d.name == *name).cloned() {
                if self.rng.chance(1, 2) {
                    let mut clauses = Vec::new();
                    for x in &decl.xtors {
                        let mut ctx = cs::TypingContext::default();
                        let mut args = Vec::new();
                        for b in &x.args.bindings {
                            let v = self.fresh("f");
                            ctx.bindings.push(cs::ContextBinding { var: v.clone(), chi: b.chi.clone(), ty: b.ty.clone() });
                            args.push(match b.chi {
                                cs::Chirality::Prd => Argument::Producer(Term::XVar(XVar { prdcns: cs::Prd, var: v, ty: b.ty.clone() })),
                                cs::Chirality::Cns => Argument::Consumer(Term::XVar(XVar { prdcns: cs::Cns, var: v, ty: b.ty.clone() })),
                            });
                        }
                        let body = Statement::Cut(cs::Cut {
                            producer: Rc::new(Term::Xtor(cs::Xtor { prdcns: cs::Prd, name: x.name.clone(), args: cs::Arguments { entries: args }, ty: ty.clone() })),
                            ty: ty.clone(),
                            consumer: Rc::new(t.clone()),
                        });
                        clauses.push(cs::Clause { prdcns: cs::Cns, xtor: x.name.clone(), context: ctx, body: Rc::new(body) });
                    }
                    return Term::XCase(cs::XCase { prdcns: cs::Cns, clauses, ty });
                }
            }
        }
        // c  ~>  mu-tilde x. <x | c>
        let x = self.fresh("x");
        Term::Mu(Mu {
            prdcns: cs::Cns,
            variable: x.clone(),
            statement: Rc::new(Statement::Cut(cs::Cut { producer: Rc::new(Term::XVar(XVar { prdcns: cs::Prd, var: x, ty: ty.clone() })), ty: ty.clone(), consumer: Rc::new(t) })),
            ty,
        })
    }

    fn args(&mut self, a: cs::Arguments) -> cs::Arguments {
        use core_lang::traits::Typed;
        cs::Arguments {
            entries: a
                .entries
                .into_iter()
                .map(|e| match e {
                    Argument::Producer(t) => {
                        let t = self.prd(t);
                        if self.rng.chance(1, 3) && !matches!(t, Term::Op(_)) {
                            let ty = t.get_type();
                            Argument::Producer(self.wrap_prd(t, ty))
                        } else {
                            Argument::Producer(t)
                        }
                    }
                    Argument::Consumer(t) => {
                        let t = self.cns(t);
                        if self.rng.chance(1, 2) {
                            let ty = t.get_type();
                            Argument::Consumer(self.wrap_cns(t, ty))
                        } else {
                            Argument::Consumer(t)
                        }
                    }
                })
                .collect(),
        }
    }

    fn int_operand(&mut self, t: Rc<Term<cs::Prd>>) -> Rc<Term<cs::Prd>> {
        let t = self.prd(Rc::unwrap_or_clone(t));
        if self.rng.chance(1, 4) && matches!(t, Term::XVar(_) | Term::Literal(_)) {
            Rc::new(self.wrap_prd(t, Ty::I64))
        } else {
            Rc::new(t)
        }
    }

    fn prd(&mut self, t: Term<cs::Prd>) -> Term<cs::Prd> {
        match t {
            Term::XVar(_) | Term::Literal(_) => t,
            Term::Op(mut o) => {
                o.fst = self.int_operand(o.fst);
                o.snd = self.int_operand(o.snd);
                Term::Op(o)
            }
            Term::Mu(mut m) => {
                m.statement = Rc::new(self.st(Rc::unwrap_or_clone(m.statement)));
                Term::Mu(m)
            }
            Term::Xtor(mut x) => {
                x.args = self.args(x.args);
                Term::Xtor(x)
            }
            Term::XCase(mut c) => {
                c.clauses = c
                    .clauses
                    .into_iter()
                    .map(|mut cl| {
                        cl.body = Rc::new(self.st(Rc::unwrap_or_clone(cl.body)));
                        cl
                    })
                    .collect();
                Term::XCase(c)
            }
        }
    }

    fn cns(&mut self, t: Term<cs::Cns>) -> Term<cs::Cns> {
        match t {
            Term::XVar(_) | Term::Literal(_) | Term::Op(_) => t,
            Term::Mu(mut m) => {
                m.statement = Rc::new(self.st(Rc::unwrap_or_clone(m.statement)));
                Term::Mu(m)
            }
            Term::Xtor(mut x) => {
                x.args = self.args(x.args);
                Term::Xtor(x)
            }
            Term::XCase(mut c) => {
                c.clauses = c
                    .clauses
                    .into_iter()
                    .map(|mut cl| {
                        cl.body = Rc::new(self.st(Rc::unwrap_or_clone(cl.body)));
                        cl
                    })
                    .collect();
                Term::XCase(c)
            }
        }
    }

    pub fn st(&mut self, s: Statement) -> Statement {
        match s {
            Statement::Cut(mut c) => {
                c.producer = Rc::new(self.prd(Rc::unwrap_or_clone(c.producer)));
                c.consumer = Rc::new(self.cns(Rc::unwrap_or_clone(c.consumer)));
                Statement::Cut(c)
            }
            Statement::IfC(mut i) => {
                i.fst = self.int_operand(i.fst);
                i.snd = i.snd.map(|s| self.int_operand(s));
                i.thenc = Rc::new(self.st(Rc::unwrap_or_clone(i.thenc)));
                i.elsec = Rc::new(self.st(Rc::unwrap_or_clone(i.elsec)));
                Statement::IfC(i)
            }
            Statement::PrintI64(mut p) => {
                p.arg = self.int_operand(p.arg);
                p.next = Rc::new(self.st(Rc::unwrap_or_clone(p.next)));
                Statement::PrintI64(p)
            }
            Statement::Call(mut c) => {
                c.args = self.args(c.args);
                Statement::Call(c)
            }
            Statement::Exit(mut e) => {
                e.arg = self.int_operand(e.arg);
                Statement::Exit(e)
            }
        }
    }
}

/// eta-expanded variant of a (not yet uniquified) Core program; returns the number of expansions
pub fn expand(p: &cs::Prog, rng: &mut Rng) -> (cs::Prog, u64) {
    let mut e = Eta { rng, counter: 0, applied: 0, data: p.data_types.clone() };
    let mut q = p.clone();
    q.defs = q
        .defs
        .into_iter()
        .map(|mut d| {
            d.body = e.st(d.body);
            d
        })
        .collect();
    (q, e.applied)
}
