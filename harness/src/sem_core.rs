//! Abstract machine for Core (lambda-mu-mu-tilde with polarised evaluation order), running both
//! unfocused `Prog` and focused `FsProg` through one internal IR.
//!
//! Cut at integer/data type: producer first (call by value); at codata type: consumer first (call
//! by name).  Non-value arguments are evaluated innermost-first, left to right, through explicit,
//! re-entrant argument frames: once for integers/data, by name for codata.

use crate::trace::{Outcome, PrintEv, Undefined};
use core_lang::syntax as cs;
use cs::statements::IfSort;
use cs::terms::BinOp;
use std::collections::{BTreeMap, HashMap};
use std::rc::Rc;

// ------------------------------------------------------------------ internal IR

pub enum St {
    Cut { p: Rc<Tm>, codata: bool, c: Rc<Tm> },
    If { sort: IfSort, fst: Rc<Tm>, snd: Option<Rc<Tm>>, thn: Rc<St>, els: Rc<St> },
    Print { newline: bool, arg: Rc<Tm>, next: Rc<St> },
    Call { def: usize, name: String, args: Rc<Vec<(bool, Rc<Tm>)>> },
    Exit { arg: Rc<Tm> },
}

pub struct Clause {
    pub xtor: u32,
    pub params: Vec<u32>,
    pub body: Rc<St>,
}

pub enum Tm {
    Var(u32),
    Lit(i64),
    Op(Rc<Tm>, BinOp, Rc<Tm>),
    /// prd = true: mu a.s ; prd = false: mu-tilde x.s
    Mu { prd: bool, var: u32, body: Rc<St>, codata: bool },
    Xtor { prd: bool, name: u32, args: Rc<Vec<(bool, Rc<Tm>)>>, codata: bool },
    Case { prd: bool, clauses: Vec<Clause>, codata: bool },
}

pub struct Def {
    pub name: String,
    pub params: Vec<u32>,
    pub body: Rc<St>,
}

pub struct Ir {
    pub defs: Vec<Def>,
    pub main: Option<usize>,
    pub names: Vec<String>,
    pub problems: Vec<String>,
}

struct Conv<'a> {
    ids: HashMap<(String, usize), u32>,
    names: Vec<String>,
    xtors: HashMap<String, u32>,
    codata: &'a [cs::CodataDeclaration],
    def_index: HashMap<(String, usize), usize>,
    problems: Vec<String>,
}

impl<'a> Conv<'a> {
    fn id(&mut self, i: &cs::Identifier) -> u32 {
        let k = (i.name.clone(), i.id);
        if let Some(v) = self.ids.get(&k) {
            return *v;
        }
        let n = self.names.len() as u32;
        self.names.push(if i.id == 0 { i.name.clone() } else { format!("{}_{}", i.name, i.id) });
        self.ids.insert(k, n);
        n
    }
    fn xtor(&mut self, i: &cs::Identifier) -> u32 {
        let n = self.xtors.len() as u32;
        *self.xtors.entry(i.name.clone()).or_insert(n)
    }
    fn is_codata(&self, ty: &cs::Ty) -> bool {
        ty.is_codata(self.codata)
    }
    fn def(&mut self, name: &cs::Identifier) -> usize {
        match self.def_index.get(&(name.name.clone(), name.id)) {
            Some(d) => *d,
            None => {
                self.problems.push(format!("call of undefined definition {}", name.name));
                usize::MAX
            }
        }
    }

    // ---- unfocused
    fn st(&mut self, s: &cs::Statement) -> Rc<St> {
        Rc::new(match s {
            cs::Statement::Cut(c) => St::Cut { p: self.tm_p(&c.producer), codata: self.is_codata(&c.ty), c: self.tm_c(&c.consumer) },
            cs::Statement::IfC(i) => St::If {
                sort: i.sort,
                fst: self.tm_p(&i.fst),
                snd: i.snd.as_ref().map(|s| self.tm_p(s)),
                thn: self.st(&i.thenc),
                els: self.st(&i.elsec),
            },
            cs::Statement::PrintI64(p) => St::Print { newline: p.newline, arg: self.tm_p(&p.arg), next: self.st(&p.next) },
            cs::Statement::Call(c) => St::Call { def: self.def(&c.name), name: c.name.name.clone(), args: self.args(&c.args) },
            cs::Statement::Exit(e) => St::Exit { arg: self.tm_p(&e.arg) },
        })
    }
    fn args(&mut self, a: &cs::Arguments) -> Rc<Vec<(bool, Rc<Tm>)>> {
        Rc::new(
            a.entries
                .iter()
                .map(|x| match x {
                    cs::arguments::Argument::Producer(t) => (true, self.tm_p(t)),
                    cs::arguments::Argument::Consumer(t) => (false, self.tm_c(t)),
                })
                .collect(),
        )
    }
    fn clause<C: cs::terms::Chi>(&mut self, c: &cs::terms::Clause<C, cs::Statement>) -> Clause {
        Clause { xtor: self.xtor(&c.xtor), params: c.context.bindings.iter().map(|b| self.id(&b.var)).collect(), body: self.st(&c.body) }
    }
    fn tm_p(&mut self, t: &cs::Term<cs::Prd>) -> Rc<Tm> {
        Rc::new(match t {
            cs::Term::XVar(v) => Tm::Var(self.id(&v.var)),
            cs::Term::Literal(l) => Tm::Lit(l.lit),
            cs::Term::Op(o) => Tm::Op(self.tm_p(&o.fst), o.op.clone(), self.tm_p(&o.snd)),
            cs::Term::Mu(m) => Tm::Mu { prd: true, var: self.id(&m.variable), body: self.st(&m.statement), codata: self.is_codata(&m.ty) },
            cs::Term::Xtor(x) => Tm::Xtor { prd: true, name: self.xtor(&x.name), args: self.args(&x.args), codata: self.is_codata(&x.ty) },
            cs::Term::XCase(c) => Tm::Case { prd: true, clauses: c.clauses.iter().map(|cl| self.clause(cl)).collect(), codata: self.is_codata(&c.ty) },
        })
    }
    fn tm_c(&mut self, t: &cs::Term<cs::Cns>) -> Rc<Tm> {
        Rc::new(match t {
            cs::Term::XVar(v) => Tm::Var(self.id(&v.var)),
            cs::Term::Literal(_) | cs::Term::Op(_) => {
                self.problems.push("literal or operator in consumer position".into());
                Tm::Lit(0)
            }
            cs::Term::Mu(m) => Tm::Mu { prd: false, var: self.id(&m.variable), body: self.st(&m.statement), codata: self.is_codata(&m.ty) },
            cs::Term::Xtor(x) => Tm::Xtor { prd: false, name: self.xtor(&x.name), args: self.args(&x.args), codata: self.is_codata(&x.ty) },
            cs::Term::XCase(c) => Tm::Case { prd: false, clauses: c.clauses.iter().map(|cl| self.clause(cl)).collect(), codata: self.is_codata(&c.ty) },
        })
    }

    // ---- focused
    fn fs_st(&mut self, s: &cs::FsStatement) -> Rc<St> {
        Rc::new(match s {
            cs::FsStatement::Cut(c) => St::Cut { p: self.fs_tm_p(&c.producer), codata: self.is_codata(&c.ty), c: self.fs_tm_c(&c.consumer) },
            cs::FsStatement::IfC(i) => St::If {
                sort: i.sort,
                fst: Rc::new(Tm::Var(self.id(&i.fst))),
                snd: i.snd.as_ref().map(|s| Rc::new(Tm::Var(self.id(s)))),
                thn: self.fs_st(&i.thenc),
                els: self.fs_st(&i.elsec),
            },
            cs::FsStatement::PrintI64(p) => St::Print { newline: p.newline, arg: Rc::new(Tm::Var(self.id(&p.arg))), next: self.fs_st(&p.next) },
            cs::FsStatement::Call(c) => St::Call { def: self.def(&c.name), name: c.name.name.clone(), args: self.ctx_args(&c.args) },
            cs::FsStatement::Exit(e) => St::Exit { arg: Rc::new(Tm::Var(self.id(&e.var))) },
        })
    }
    fn ctx_args(&mut self, a: &cs::TypingContext) -> Rc<Vec<(bool, Rc<Tm>)>> {
        Rc::new(a.bindings.iter().map(|b| (b.chi == cs::Chirality::Prd, Rc::new(Tm::Var(self.id(&b.var))))).collect())
    }
    fn fs_clause<C: cs::terms::Chi>(&mut self, c: &cs::terms::Clause<C, cs::FsStatement>) -> Clause {
        Clause { xtor: self.xtor(&c.xtor), params: c.context.bindings.iter().map(|b| self.id(&b.var)).collect(), body: self.fs_st(&c.body) }
    }
    fn fs_tm_p(&mut self, t: &cs::FsTerm<cs::Prd>) -> Rc<Tm> {
        Rc::new(match t {
            cs::FsTerm::XVar(v) => Tm::Var(self.id(&v.var)),
            cs::FsTerm::Literal(l) => Tm::Lit(l.lit),
            cs::FsTerm::Op(o) => Tm::Op(Rc::new(Tm::Var(self.id(&o.fst))), o.op.clone(), Rc::new(Tm::Var(self.id(&o.snd)))),
            cs::FsTerm::Mu(m) => Tm::Mu { prd: true, var: self.id(&m.variable), body: self.fs_st(&m.statement), codata: self.is_codata(&m.ty) },
            cs::FsTerm::Xtor(x) => Tm::Xtor { prd: true, name: self.xtor(&x.name), args: self.ctx_args(&x.args), codata: self.is_codata(&x.ty) },
            cs::FsTerm::XCase(c) => Tm::Case { prd: true, clauses: c.clauses.iter().map(|cl| self.fs_clause(cl)).collect(), codata: self.is_codata(&c.ty) },
        })
    }
    fn fs_tm_c(&mut self, t: &cs::FsTerm<cs::Cns>) -> Rc<Tm> {
        Rc::new(match t {
            cs::FsTerm::XVar(v) => Tm::Var(self.id(&v.var)),
            cs::FsTerm::Literal(_) | cs::FsTerm::Op(_) => {
                self.problems.push("literal or operator in consumer position".into());
                Tm::Lit(0)
            }
            cs::FsTerm::Mu(m) => Tm::Mu { prd: false, var: self.id(&m.variable), body: self.fs_st(&m.statement), codata: self.is_codata(&m.ty) },
            cs::FsTerm::Xtor(x) => Tm::Xtor { prd: false, name: self.xtor(&x.name), args: self.ctx_args(&x.args), codata: self.is_codata(&x.ty) },
            cs::FsTerm::XCase(c) => Tm::Case { prd: false, clauses: c.clauses.iter().map(|cl| self.fs_clause(cl)).collect(), codata: self.is_codata(&c.ty) },
        })
    }
}

fn new_conv<'a, S>(defs: &[cs::Def<S>], codata: &'a [cs::CodataDeclaration]) -> Conv<'a> {
    let mut def_index = HashMap::new();
    let mut problems = Vec::new();
    for (i, d) in defs.iter().enumerate() {
        if def_index.insert((d.name.name.clone(), d.name.id), i).is_some() {
            problems.push(format!("two definitions named {}", d.name.name));
        }
    }
    Conv { ids: HashMap::new(), names: Vec::new(), xtors: HashMap::new(), codata, def_index, problems }
}

pub fn from_prog(p: &cs::Prog) -> Ir {
    let mut c = new_conv(&p.defs, &p.codata_types);
    let mut defs = Vec::new();
    for d in &p.defs {
        let params = d.context.bindings.iter().map(|b| c.id(&b.var)).collect();
        let body = c.st(&d.body);
        defs.push(Def { name: d.name.name.clone(), params, body });
    }
    let main = defs.iter().position(|d| d.name == "main");
    Ir { defs, main, names: c.names, problems: c.problems }
}

pub fn from_fsprog(p: &cs::FsProg) -> Ir {
    let mut c = new_conv(&p.defs, &p.codata_types);
    let mut defs = Vec::new();
    for d in &p.defs {
        let params = d.context.bindings.iter().map(|b| c.id(&b.var)).collect();
        let body = c.fs_st(&d.body);
        defs.push(Def { name: d.name.name.clone(), params, body });
    }
    let main = defs.iter().position(|d| d.name == "main");
    Ir { defs, main, names: c.names, problems: c.problems }
}

// ------------------------------------------------------------------ machine

#[derive(Clone)]
pub enum Val {
    Int(i64),
    Con(u32, Rc<Vec<Val>>),
    Des(u32, Rc<Vec<Val>>),
    Clo(Rc<Tm>, Env),
    Frame(Rc<Frame>),
}

type Env = Option<Rc<EnvNode>>;
pub struct EnvNode {
    k: u32,
    v: Val,
    next: Env,
}

fn bind(env: &Env, k: u32, v: Val) -> Env {
    Some(Rc::new(EnvNode { k, v, next: env.clone() }))
}

fn lookup(env: &Env, k: u32) -> Option<Val> {
    let mut e = env;
    while let Some(n) = e {
        if n.k == k {
            return Some(n.v.clone());
        }
        e = &n.next;
    }
    None
}

#[derive(Clone)]
enum Then {
    Call(usize),
    MkCon(u32),
    MkDes(u32),
    Op(BinOp),
    If { sort: IfSort, two: bool, thn: Rc<St>, els: Rc<St> },
    Print { newline: bool, next: Rc<St> },
    Exit,
}

#[derive(Clone)]
enum Dest {
    None,
    /// the constructed value / integer is given to this (resolved) consumer
    ToConsumer(Val),
    /// the constructed destructor covalue is what this producer reacts to
    ToProducer(Rc<Tm>, Env),
    /// the constructed value is the next argument of the parent frame
    Parent(Rc<Frame>),
}

#[derive(Clone)]
pub struct Frame {
    then: Then,
    done: Vec<Val>,
    args: Rc<Vec<(bool, Rc<Tm>)>>,
    env: Env,
    dest: Dest,
}

pub struct Limits {
    pub steps: u64,
}
impl Default for Limits {
    fn default() -> Self {
        Limits { steps: 1_000_000 }
    }
}

#[derive(Default, Debug, Clone)]
pub struct CoreStats {
    pub steps: u64,
    /// argument frames created for non-value arguments (must stay 0 on focused programs)
    pub arg_frames: u64,
    pub frame_resumes: u64,
    pub cuts_cbv: u64,
    pub cuts_cbn: u64,
    pub shapes: BTreeMap<String, u64>,
}

enum Next {
    Run(Rc<St>, Env),
    Give(Val, Val),
    React(Rc<Tm>, Env, Val),
    ReactVal(Val, Val),
    Args(Frame),
    Done(i64),
}

pub fn run(ir: &Ir, args: &[i64], lim: &Limits) -> (Outcome, CoreStats) {
    let mut m = M { ir, prints: Vec::new(), st: CoreStats::default() };
    let end = m.exec(args, lim);
    (Outcome { prints: m.prints, end }, m.st)
}

struct M<'a> {
    ir: &'a Ir,
    prints: Vec<PrintEv>,
    st: CoreStats,
}

fn stuck<T>(m: impl Into<String>) -> Result<T, Undefined> {
    Err(Undefined::Stuck(m.into()))
}

fn tm_shape(t: &Tm) -> &'static str {
    match t {
        Tm::Var(_) => "var",
        Tm::Lit(_) => "lit",
        Tm::Op(..) => "op",
        Tm::Mu { .. } => "mu",
        Tm::Xtor { .. } => "xtor",
        Tm::Case { .. } => "case",
    }
}

impl<'a> M<'a> {
    fn name(&self, k: u32) -> &str {
        self.ir.names.get(k as usize).map(|s| s.as_str()).unwrap_or("?")
    }

    fn var(&self, env: &Env, k: u32) -> Result<Val, Undefined> {
        lookup(env, k).ok_or_else(|| Undefined::Stuck(format!("unbound (co)variable {}", self.name(k))))
    }

    /// closure / value of a term that needs no evaluation in its position
    fn resolve(&self, t: &Rc<Tm>, env: &Env) -> Result<Val, Undefined> {
        match &**t {
            Tm::Var(k) => self.var(env, *k),
            Tm::Lit(n) => Ok(Val::Int(*n)),
            Tm::Mu { .. } | Tm::Case { .. } => Ok(Val::Clo(t.clone(), env.clone())),
            _ => stuck("term needs evaluation where a (co)value is required"),
        }
    }

    fn select(&self, clauses: &[Clause], xtor: u32, vals: &[Val], env: &Env, what: &str) -> Result<Next, Undefined> {
        let mut hit = None;
        for c in clauses {
            if c.xtor == xtor {
                if hit.is_some() {
                    return stuck(format!("{what}: two clauses for one xtor"));
                }
                hit = Some(c);
            }
        }
        let c = hit.ok_or_else(|| Undefined::Stuck(format!("{what}: no clause for the xtor")))?;
        if c.params.len() != vals.len() {
            return stuck(format!("{what}: clause binds {} variables, xtor carries {}", c.params.len(), vals.len()));
        }
        let mut e = env.clone();
        for (p, v) in c.params.iter().zip(vals) {
            e = bind(&e, *p, v.clone());
        }
        Ok(Next::Run(c.body.clone(), e))
    }

    fn cut(&mut self, p: &Rc<Tm>, codata: bool, c: &Rc<Tm>, env: &Env) -> Result<Next, Undefined> {
        *self.st.shapes.entry(format!("{}|{}|{}", tm_shape(p), tm_shape(c), if codata { "codata" } else { "value" })).or_insert(0) += 1;
        if !codata {
            self.st.cuts_cbv += 1;
            match &**p {
                Tm::Var(_) | Tm::Lit(_) => {
                    let v = self.resolve(p, env)?;
                    let k = self.resolve(c, env)?;
                    Ok(Next::Give(v, k))
                }
                Tm::Mu { prd: true, var, body, .. } => {
                    let k = self.resolve(c, env)?;
                    Ok(Next::Run(body.clone(), bind(env, *var, k)))
                }
                Tm::Xtor { prd: true, name, args, .. } => {
                    let k = self.resolve(c, env)?;
                    Ok(Next::Args(Frame { then: Then::MkCon(*name), done: Vec::new(), args: args.clone(), env: env.clone(), dest: Dest::ToConsumer(k) }))
                }
                Tm::Op(a, op, b) => {
                    let k = self.resolve(c, env)?;
                    let args = Rc::new(vec![(true, a.clone()), (true, b.clone())]);
                    Ok(Next::Args(Frame { then: Then::Op(op.clone()), done: Vec::new(), args, env: env.clone(), dest: Dest::ToConsumer(k) }))
                }
                _ => stuck("ill-formed producer in a cut at integer/data type"),
            }
        } else {
            self.st.cuts_cbn += 1;
            match &**c {
                Tm::Var(k) => {
                    let kv = self.var(env, *k)?;
                    Ok(Next::React(p.clone(), env.clone(), kv))
                }
                Tm::Xtor { prd: false, name, args, .. } => {
                    Ok(Next::Args(Frame { then: Then::MkDes(*name), done: Vec::new(), args: args.clone(), env: env.clone(), dest: Dest::ToProducer(p.clone(), env.clone()) }))
                }
                Tm::Mu { prd: false, var, body, .. } => {
                    let pv = self.resolve(p, env)?;
                    Ok(Next::Run(body.clone(), bind(env, *var, pv)))
                }
                _ => stuck("ill-formed consumer in a cut at codata type"),
            }
        }
    }

    fn give(&mut self, v: Val, k: Val) -> Result<Next, Undefined> {
        match k {
            Val::Clo(t, env) => match &*t {
                Tm::Mu { prd: false, var, body, .. } => Ok(Next::Run(body.clone(), bind(&env, *var, v))),
                Tm::Case { prd: false, clauses, .. } => match v {
                    Val::Con(x, fields) => self.select(clauses, x, &fields, &env, "case"),
                    _ => stuck("case applied to a non-constructor value"),
                },
                _ => stuck("value given to something that is not a consumer"),
            },
            Val::Frame(f) => {
                self.st.frame_resumes += 1;
                let mut f2 = (*f).clone();
                f2.done.push(v);
                Ok(Next::Args(f2))
            }
            _ => stuck("value given to a non-consumer value"),
        }
    }

    fn react_val(&mut self, u: Val, k: Val) -> Result<Next, Undefined> {
        match u {
            Val::Clo(t, env) => match &*t {
                Tm::Mu { prd: true, var, body, .. } => Ok(Next::Run(body.clone(), bind(&env, *var, k))),
                Tm::Case { prd: true, clauses, .. } => match k {
                    Val::Des(x, args) => self.select(clauses, x, &args, &env, "cocase"),
                    _ => stuck("cocase meets a consumer that is not a destructor"),
                },
                _ => stuck("codata producer is not a cocase or a mu-abstraction"),
            },
            Val::Frame(f) => {
                // suspension of an argument frame (consumer argument of codata type)
                self.st.frame_resumes += 1;
                let mut f2 = (*f).clone();
                f2.done.push(k);
                Ok(Next::Args(f2))
            }
            _ => stuck("non-codata value in a cut at codata type"),
        }
    }

    fn react(&mut self, p: Rc<Tm>, env: Env, k: Val) -> Result<Next, Undefined> {
        match &*p {
            Tm::Var(x) => {
                let u = self.var(&env, *x)?;
                Ok(Next::ReactVal(u, k))
            }
            Tm::Mu { prd: true, var, body, .. } => Ok(Next::Run(body.clone(), bind(&env, *var, k))),
            Tm::Case { prd: true, .. } => Ok(Next::ReactVal(Val::Clo(p.clone(), env), k)),
            _ => stuck("ill-formed producer in a cut at codata type"),
        }
    }

    fn deliver(&mut self, v: Val, dest: Dest) -> Result<Next, Undefined> {
        match dest {
            Dest::None => stuck("constructed value has no destination"),
            Dest::ToConsumer(k) => Ok(Next::Give(v, k)),
            Dest::ToProducer(p, env) => Ok(Next::React(p, env, v)),
            Dest::Parent(f) => {
                let mut f2 = (*f).clone();
                f2.done.push(v);
                Ok(Next::Args(f2))
            }
        }
    }

    /// evaluate the remaining arguments of a frame, left to right
    fn args(&mut self, mut f: Frame) -> Result<Next, Undefined> {
        while f.done.len() < f.args.len() {
            let (is_prd, t) = f.args[f.done.len()].clone();
            match &*t {
                Tm::Var(k) => {
                    let v = self.var(&f.env, *k)?;
                    f.done.push(v);
                }
                Tm::Lit(n) => f.done.push(Val::Int(*n)),
                Tm::Case { .. } => f.done.push(Val::Clo(t.clone(), f.env.clone())),
                Tm::Mu { prd, var, body, codata } => {
                    // producer mu of codata type / consumer mu-tilde of value type: (co)values
                    if (*prd && *codata) || (!*prd && !*codata) {
                        f.done.push(Val::Clo(t.clone(), f.env.clone()));
                    } else {
                        // computation: run the body with the binder bound to this very frame
                        self.st.arg_frames += 1;
                        let env = f.env.clone();
                        let fr = Rc::new(f);
                        return Ok(Next::Run(body.clone(), bind(&env, *var, Val::Frame(fr))));
                    }
                }
                Tm::Xtor { prd, name, args, .. } => {
                    self.st.arg_frames += 1;
                    let then = if *prd { Then::MkCon(*name) } else { Then::MkDes(*name) };
                    let env = f.env.clone();
                    let parent = Rc::new(f);
                    f = Frame { then, done: Vec::new(), args: args.clone(), env, dest: Dest::Parent(parent) };
                }
                Tm::Op(a, op, b) => {
                    if !is_prd {
                        return stuck("operator in consumer argument position");
                    }
                    self.st.arg_frames += 1;
                    let env = f.env.clone();
                    let parent = Rc::new(f);
                    f = Frame { then: Then::Op(op.clone()), done: Vec::new(), args: Rc::new(vec![(true, a.clone()), (true, b.clone())]), env, dest: Dest::Parent(parent) };
                }
            }
        }
        // all arguments are (co)values
        let Frame { then, done, env, dest, .. } = f;
        let int = |v: &Val| -> Result<i64, Undefined> {
            match v {
                Val::Int(n) => Ok(*n),
                _ => stuck("integer expected"),
            }
        };
        match then {
            Then::Call(d) => {
                let def = self.ir.defs.get(d).ok_or_else(|| Undefined::Stuck("call of an undefined definition".into()))?;
                if def.params.len() != done.len() {
                    return stuck(format!("call of {}: {} arguments for {} parameters", def.name, done.len(), def.params.len()));
                }
                let mut e: Env = None;
                for (p, v) in def.params.iter().zip(done) {
                    e = bind(&e, *p, v);
                }
                Ok(Next::Run(def.body.clone(), e))
            }
            Then::MkCon(x) => self.deliver(Val::Con(x, Rc::new(done)), dest),
            Then::MkDes(x) => self.deliver(Val::Des(x, Rc::new(done)), dest),
            Then::Op(op) => {
                let a = int(&done[0])?;
                let b = int(&done[1])?;
                let r = match op {
                    BinOp::Sum => Some(a.wrapping_add(b)),
                    BinOp::Sub => Some(a.wrapping_sub(b)),
                    BinOp::Prod => Some(a.wrapping_mul(b)),
                    BinOp::Div => if b == 0 || (a == i64::MIN && b == -1) { None } else { Some(a / b) },
                    BinOp::Rem => if b == 0 || (a == i64::MIN && b == -1) { None } else { Some(a % b) },
                };
                match r {
                    Some(r) => self.deliver(Val::Int(r), dest),
                    None => Err(Undefined::Arith),
                }
            }
            Then::If { sort, two, thn, els } => {
                let a = int(&done[0])?;
                let b = if two { int(&done[1])? } else { 0 };
                let t = match sort {
                    IfSort::Equal => a == b,
                    IfSort::NotEqual => a != b,
                    IfSort::Less => a < b,
                    IfSort::LessOrEqual => a <= b,
                    IfSort::Greater => a > b,
                    IfSort::GreaterOrEqual => a >= b,
                };
                Ok(Next::Run(if t { thn } else { els }, env))
            }
            Then::Print { newline, next } => {
                let a = int(&done[0])?;
                self.prints.push(PrintEv { value: a, newline });
                if self.prints.len() > 100_000 {
                    return Err(Undefined::Fuel);
                }
                Ok(Next::Run(next, env))
            }
            Then::Exit => Ok(Next::Done(int(&done[0])?)),
        }
    }

    fn exec(&mut self, args: &[i64], lim: &Limits) -> Result<i64, Undefined> {
        if let Some(p) = self.ir.problems.first() {
            return stuck(p.clone());
        }
        let main = self.ir.main.ok_or_else(|| Undefined::Stuck("no definition named main".into()))?;
        let def = &self.ir.defs[main];
        if def.params.len() != args.len() {
            return stuck(format!("main expects {} arguments, {} given", def.params.len(), args.len()));
        }
        let mut env: Env = None;
        for (p, v) in def.params.iter().zip(args) {
            env = bind(&env, *p, Val::Int(*v));
        }
        let mut next = Next::Run(def.body.clone(), env);
        loop {
            self.st.steps += 1;
            if self.st.steps > lim.steps {
                return Err(Undefined::Fuel);
            }
            next = match next {
                Next::Done(v) => return Ok(v),
                Next::Run(s, env) => match &*s {
                    St::Cut { p, codata, c } => self.cut(p, *codata, c, &env)?,
                    St::If { sort, fst, snd, thn, els } => {
                        let mut a = vec![(true, fst.clone())];
                        if let Some(s) = snd {
                            a.push((true, s.clone()));
                        }
                        Next::Args(Frame { then: Then::If { sort: *sort, two: snd.is_some(), thn: thn.clone(), els: els.clone() }, done: Vec::new(), args: Rc::new(a), env, dest: Dest::None })
                    }
                    St::Print { newline, arg, next } => {
                        Next::Args(Frame { then: Then::Print { newline: *newline, next: next.clone() }, done: Vec::new(), args: Rc::new(vec![(true, arg.clone())]), env, dest: Dest::None })
                    }
                    St::Call { def, args, .. } => Next::Args(Frame { then: Then::Call(*def), done: Vec::new(), args: args.clone(), env, dest: Dest::None }),
                    St::Exit { arg } => Next::Args(Frame { then: Then::Exit, done: Vec::new(), args: Rc::new(vec![(true, arg.clone())]), env, dest: Dest::None }),
                },
                Next::Give(v, k) => self.give(v, k)?,
                Next::React(p, env, k) => self.react(p, env, k)?,
                Next::ReactVal(u, k) => self.react_val(u, k)?,
                Next::Args(f) => self.args(f)?,
            };
        }
    }
}
