//! Native x86-64 execution of emitted assembly: NASM->GAS transliteration (syntax only), GNU as,
//! gcc link against the repository's own driver template and io.c.

use std::fs;
use std::io::Read;
use std::path::{Path, PathBuf};
use std::process::{Command, Stdio};
use std::time::{Duration, Instant};

/// Purely syntactic NASM -> GAS (intel syntax) transliteration.  Err = an instruction form the
/// table does not know (harness error, never a verdict).
pub fn nasm_to_gas(text: &str) -> Result<String, String> {
    let mut out = String::with_capacity(text.len() + 64);
    out.push_str(".intel_syntax noprefix\n");
    for line in text.lines() {
        let t = line.trim();
        if t.is_empty() {
            out.push('\n');
            continue;
        }
        if let Some(c) = t.strip_prefix(';') {
            out.push_str("    #");
            out.push_str(&c.replace('\\', ""));
            out.push('\n');
            continue;
        }
        if t.starts_with("section .note.GNU-stack") {
            out.push_str(".section .note.GNU-stack,\"\",@progbits\n");
            continue;
        }
        if t == "section .text" {
            out.push_str(".text\n");
            continue;
        }
        if let Some(r) = t.strip_prefix("extern ") {
            out.push_str(&format!(".extern {r}\n"));
            continue;
        }
        if let Some(r) = t.strip_prefix("global ") {
            out.push_str(&format!(".globl {r}\n"));
            continue;
        }
        if t.ends_with(':') && !t.contains(' ') {
            out.push_str(t);
            out.push('\n');
            continue;
        }
        // instruction
        let (mn, rest) = match t.find(' ') {
            Some(i) => (&t[..i], t[i + 1..].trim()),
            None => (t, ""),
        };
        let known = [
            "add", "sub", "imul", "idiv", "cqo", "jmp", "lea", "mov", "cmp", "je", "jne", "jl", "jle", "jg", "jge", "push", "pop", "call", "ret",
        ];
        // conditional jumps take a label only: identical in both syntaxes whatever the condition
        let cond_jump = mn.starts_with('j') && mn.len() <= 5 && mn.chars().all(|c| c.is_ascii_lowercase()) && !rest.contains('[') && !rest.contains(' ');
        // any other mnemonic made of lower-case letters is passed on with the same operand
        // rewriting: GNU as decides whether it exists (a line that is no instruction at all is an
        // error of the transliteration input)
        let plausible = !mn.is_empty() && mn.len() <= 10 && mn.chars().all(|c| c.is_ascii_lowercase() || c.is_ascii_digit());
        if !known.contains(&mn) && !cond_jump && !plausible {
            return Err(format!("unknown instruction form: {t}"));
        }
        let mut rest = rest.to_string();
        let mut mn_out = mn.to_string();
        if mn == "jmp" {
            if let Some(l) = rest.strip_prefix("near ") {
                mn_out = "{disp32} jmp".to_string();
                rest = l.to_string();
            }
        }
        if mn == "call" {
            // plain call, exactly what the NASM source says (the linker resolves the local symbol)
            rest = rest.to_string();
        }
        rest = rest.replace("qword [", "qword ptr [");
        if let Some(i) = rest.find("[rel ") {
            let j = rest[i..].find(']').ok_or("unterminated [rel")? + i;
            let label = rest[i + 5..j].trim().to_string();
            rest = format!("{}[rip + {}]{}", &rest[..i], label, &rest[j + 1..]);
        }
        // memory operands without size where the other operand is a register are fine in GAS
        out.push_str("    ");
        out.push_str(&mn_out);
        if !rest.is_empty() {
            out.push(' ');
            out.push_str(&rest);
        }
        out.push('\n');
    }
    Ok(out)
}

pub struct Workdir {
    pub dir: PathBuf,
    driver_objs: std::collections::HashMap<(usize, Option<usize>), PathBuf>,
    io_obj: Option<PathBuf>,
    counter: usize,
}

#[derive(Debug, Clone)]
pub struct RunResult {
    pub stdout: Vec<u8>,
    pub stderr: Vec<u8>,
    pub status: Option<i32>,
    pub signal: Option<i32>,
    pub timed_out: bool,
}

#[derive(Debug)]
pub enum BuildErr {
    /// assembler rejected the file (a finding for C14)
    Assemble(String),
    /// anything else (harness/infrastructure problem)
    Infra(String),
}

impl Workdir {
    pub fn new(tag: &str) -> Workdir {
        let dir = std::env::temp_dir().join(format!("scc-verif-{}-{}", tag, std::process::id()));
        let _ = fs::remove_dir_all(&dir);
        fs::create_dir_all(&dir).expect("cannot create work dir");
        Workdir { dir, driver_objs: Default::default(), io_obj: None, counter: 0 }
    }

    pub fn fresh(&mut self, ext: &str) -> PathBuf {
        self.counter += 1;
        self.dir.join(format!("f{}.{}", self.counter, ext))
    }

    /// Instantiate the C driver with the repository's own `generate_c_driver` (run with the work
    /// directory as cwd, because it writes relative to the cwd) and compile it once.
    fn driver_obj(&mut self, nargs: usize, heap_mb: Option<usize>) -> Result<PathBuf, BuildErr> {
        if let Some(p) = self.driver_objs.get(&(nargs, heap_mb)) {
            return Ok(p.clone());
        }
        let old = std::env::current_dir().map_err(|e| BuildErr::Infra(e.to_string()))?;
        std::env::set_current_dir(&self.dir).map_err(|e| BuildErr::Infra(e.to_string()))?;
        let res = crate::pipeline::guarded("generate_c_driver", || driver::generate_c_driver(nargs, heap_mb));
        let _ = std::env::set_current_dir(old);
        let rel = res.map_err(|e| BuildErr::Infra(e.describe()))?;
        let src = self.dir.join(rel);
        let obj = self.dir.join(format!("driver{}_{}.o", nargs, heap_mb.unwrap_or(0)));
        let o = Command::new("gcc").args(["-O1", "-w", "-c", "-o"]).arg(&obj).arg(&src).output().map_err(|e| BuildErr::Infra(e.to_string()))?;
        if !o.status.success() {
            return Err(BuildErr::Infra(format!("gcc driver: {}", String::from_utf8_lossy(&o.stderr))));
        }
        self.driver_objs.insert((nargs, heap_mb), obj.clone());
        Ok(obj)
    }

    fn io_obj(&mut self) -> Result<PathBuf, BuildErr> {
        if let Some(p) = &self.io_obj {
            return Ok(p.clone());
        }
        let src = self.dir.join("io.c");
        fs::write(&src, driver::IO_RUNTIME).map_err(|e| BuildErr::Infra(e.to_string()))?;
        let obj = self.dir.join("io.o");
        let o = Command::new("gcc").args(["-O1", "-w", "-c", "-o"]).arg(&obj).arg(&src).output().map_err(|e| BuildErr::Infra(e.to_string()))?;
        if !o.status.success() {
            return Err(BuildErr::Infra(format!("gcc io.c: {}", String::from_utf8_lossy(&o.stderr))));
        }
        self.io_obj = Some(obj.clone());
        Ok(obj)
    }

    pub fn assemble_x86(&mut self, asm_text: &str) -> Result<PathBuf, BuildErr> {
        let gas = nasm_to_gas(asm_text).map_err(BuildErr::Infra)?;
        let s = self.fresh("s");
        fs::write(&s, gas).map_err(|e| BuildErr::Infra(e.to_string()))?;
        let o = s.with_extension("o");
        let out = Command::new("as").arg("--64").arg("-o").arg(&o).arg(&s).output().map_err(|e| BuildErr::Infra(e.to_string()))?;
        if !out.status.success() {
            let msg = String::from_utf8_lossy(&out.stderr).to_string();
            return Err(BuildErr::Assemble(msg));
        }
        let _ = fs::remove_file(&s);
        Ok(o)
    }

    pub fn link(&mut self, obj: &Path, nargs: usize, heap_mb: Option<usize>) -> Result<PathBuf, BuildErr> {
        let d = self.driver_obj(nargs, heap_mb)?;
        let io = self.io_obj()?;
        let exe = obj.with_extension("exe");
        let out = Command::new("gcc").arg("-o").arg(&exe).arg(&d).arg(&io).arg(obj).output().map_err(|e| BuildErr::Infra(e.to_string()))?;
        if !out.status.success() {
            let msg = String::from_utf8_lossy(&out.stderr).to_string();
            // a label the emitted file refers to but never defines is the emitted file's fault
            if msg.contains("undefined reference") {
                let first = msg.lines().find(|l| l.contains("undefined reference")).unwrap_or("").to_string();
                return Err(BuildErr::Assemble(format!("Error: link: {first}")));
            }
            return Err(BuildErr::Infra(format!("link: {msg}")));
        }
        Ok(exe)
    }

    pub fn build_x86(&mut self, asm_text: &str, nargs: usize, heap_mb: Option<usize>) -> Result<PathBuf, BuildErr> {
        let o = self.assemble_x86(asm_text)?;
        let exe = self.link(&o, nargs, heap_mb)?;
        let _ = fs::remove_file(&o);
        Ok(exe)
    }
}

impl Drop for Workdir {
    fn drop(&mut self) {
        let _ = fs::remove_dir_all(&self.dir);
    }
}

pub fn run_exe(cmd: &mut Command, timeout: Duration) -> Result<RunResult, String> {
    use std::os::unix::process::ExitStatusExt;
    let mut child = cmd.stdin(Stdio::null()).stdout(Stdio::piped()).stderr(Stdio::piped()).spawn().map_err(|e| e.to_string())?;
    let mut so = child.stdout.take().unwrap();
    let mut se = child.stderr.take().unwrap();
    let h1 = std::thread::spawn(move || {
        let mut b = Vec::new();
        let _ = so.read_to_end(&mut b);
        b
    });
    let h2 = std::thread::spawn(move || {
        let mut b = Vec::new();
        let _ = se.read_to_end(&mut b);
        b
    });
    let start = Instant::now();
    let mut timed_out = false;
    let status = loop {
        match child.try_wait().map_err(|e| e.to_string())? {
            Some(s) => break s,
            None => {
                if start.elapsed() > timeout {
                    timed_out = true;
                    let _ = child.kill();
                    break child.wait().map_err(|e| e.to_string())?;
                }
                std::thread::sleep(Duration::from_micros(300));
            }
        }
    };
    let stdout = h1.join().unwrap_or_default();
    let stderr = h2.join().unwrap_or_default();
    Ok(RunResult { stdout, stderr, status: status.code(), signal: status.signal(), timed_out })
}
