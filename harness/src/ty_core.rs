//! Scope and type checker for Core programs (unfocused `Prog` and focused `FsProg`) with the
//! annotations they carry, plus the binder-uniqueness check for focused programs.

use core_lang::syntax as cs;
use cs::{Chirality, ContextBinding, Identifier, Ty, TypingContext};
use std::collections::HashSet;

pub enum TSt {
    Cut { p: TTm, ty: Ty, c: TTm },
    If { fst: TTm, snd: Option<TTm>, thn: Box<TSt>, els: Box<TSt> },
    Print { arg: TTm, next: Box<TSt> },
    Call { name: Identifier, args: Vec<(Chirality, TTm)> },
    Exit { arg: TTm },
}

pub enum TTm {
    Var { var: Identifier, ty: Option<Ty> },
    Lit,
    Op(Box<TTm>, Box<TTm>),
    Mu { prd: bool, var: Identifier, ty: Ty, body: Box<TSt> },
    Xtor { prd: bool, name: Identifier, ty: Ty, args: Vec<(Chirality, TTm)> },
    Case { prd: bool, ty: Ty, clauses: Vec<(Identifier, TypingContext, TSt)> },
}

// ---------------------------------------------------------------- conversion

fn st(s: &cs::Statement) -> TSt {
    match s {
        cs::Statement::Cut(c) => TSt::Cut { p: tp(&c.producer), ty: c.ty.clone(), c: tc(&c.consumer) },
        cs::Statement::IfC(i) => TSt::If { fst: tp(&i.fst), snd: i.snd.as_ref().map(|x| tp(x)), thn: Box::new(st(&i.thenc)), els: Box::new(st(&i.elsec)) },
        cs::Statement::PrintI64(p) => TSt::Print { arg: tp(&p.arg), next: Box::new(st(&p.next)) },
        cs::Statement::Call(c) => TSt::Call { name: c.name.clone(), args: args(&c.args) },
        cs::Statement::Exit(e) => TSt::Exit { arg: tp(&e.arg) },
    }
}
fn args(a: &cs::Arguments) -> Vec<(Chirality, TTm)> {
    a.entries
        .iter()
        .map(|x| match x {
            cs::arguments::Argument::Producer(t) => (Chirality::Prd, tp(t)),
            cs::arguments::Argument::Consumer(t) => (Chirality::Cns, tc(t)),
        })
        .collect()
}
fn tp(t: &cs::Term<cs::Prd>) -> TTm {
    match t {
        cs::Term::XVar(v) => TTm::Var { var: v.var.clone(), ty: Some(v.ty.clone()) },
        cs::Term::Literal(_) => TTm::Lit,
        cs::Term::Op(o) => TTm::Op(Box::new(tp(&o.fst)), Box::new(tp(&o.snd))),
        cs::Term::Mu(m) => TTm::Mu { prd: true, var: m.variable.clone(), ty: m.ty.clone(), body: Box::new(st(&m.statement)) },
        cs::Term::Xtor(x) => TTm::Xtor { prd: true, name: x.name.clone(), ty: x.ty.clone(), args: args(&x.args) },
        cs::Term::XCase(c) => TTm::Case { prd: true, ty: c.ty.clone(), clauses: c.clauses.iter().map(|cl| (cl.xtor.clone(), cl.context.clone(), st(&cl.body))).collect() },
    }
}
fn tc(t: &cs::Term<cs::Cns>) -> TTm {
    match t {
        cs::Term::XVar(v) => TTm::Var { var: v.var.clone(), ty: Some(v.ty.clone()) },
        cs::Term::Literal(_) => TTm::Lit,
        cs::Term::Op(o) => TTm::Op(Box::new(tp(&o.fst)), Box::new(tp(&o.snd))),
        cs::Term::Mu(m) => TTm::Mu { prd: false, var: m.variable.clone(), ty: m.ty.clone(), body: Box::new(st(&m.statement)) },
        cs::Term::Xtor(x) => TTm::Xtor { prd: false, name: x.name.clone(), ty: x.ty.clone(), args: args(&x.args) },
        cs::Term::XCase(c) => TTm::Case { prd: false, ty: c.ty.clone(), clauses: c.clauses.iter().map(|cl| (cl.xtor.clone(), cl.context.clone(), st(&cl.body))).collect() },
    }
}

fn fvar(i: &Identifier) -> TTm {
    TTm::Var { var: i.clone(), ty: None }
}
fn fst(s: &cs::FsStatement) -> TSt {
    match s {
        cs::FsStatement::Cut(c) => TSt::Cut { p: ftp(&c.producer), ty: c.ty.clone(), c: ftc(&c.consumer) },
        cs::FsStatement::IfC(i) => TSt::If { fst: fvar(&i.fst), snd: i.snd.as_ref().map(fvar), thn: Box::new(fst(&i.thenc)), els: Box::new(fst(&i.elsec)) },
        cs::FsStatement::PrintI64(p) => TSt::Print { arg: fvar(&p.arg), next: Box::new(fst(&p.next)) },
        cs::FsStatement::Call(c) => TSt::Call { name: c.name.clone(), args: fargs(&c.args) },
        cs::FsStatement::Exit(e) => TSt::Exit { arg: fvar(&e.var) },
    }
}
fn fargs(a: &TypingContext) -> Vec<(Chirality, TTm)> {
    a.bindings.iter().map(|b| (b.chi.clone(), TTm::Var { var: b.var.clone(), ty: Some(b.ty.clone()) })).collect()
}
fn ftp(t: &cs::FsTerm<cs::Prd>) -> TTm {
    match t {
        cs::FsTerm::XVar(v) => TTm::Var { var: v.var.clone(), ty: Some(v.ty.clone()) },
        cs::FsTerm::Literal(_) => TTm::Lit,
        cs::FsTerm::Op(o) => TTm::Op(Box::new(fvar(&o.fst)), Box::new(fvar(&o.snd))),
        cs::FsTerm::Mu(m) => TTm::Mu { prd: true, var: m.variable.clone(), ty: m.ty.clone(), body: Box::new(fst(&m.statement)) },
        cs::FsTerm::Xtor(x) => TTm::Xtor { prd: true, name: x.name.clone(), ty: x.ty.clone(), args: fargs(&x.args) },
        cs::FsTerm::XCase(c) => TTm::Case { prd: true, ty: c.ty.clone(), clauses: c.clauses.iter().map(|cl| (cl.xtor.clone(), cl.context.clone(), fst(&cl.body))).collect() },
    }
}
fn ftc(t: &cs::FsTerm<cs::Cns>) -> TTm {
    match t {
        cs::FsTerm::XVar(v) => TTm::Var { var: v.var.clone(), ty: Some(v.ty.clone()) },
        cs::FsTerm::Literal(_) => TTm::Lit,
        cs::FsTerm::Op(o) => TTm::Op(Box::new(fvar(&o.fst)), Box::new(fvar(&o.snd))),
        cs::FsTerm::Mu(m) => TTm::Mu { prd: false, var: m.variable.clone(), ty: m.ty.clone(), body: Box::new(fst(&m.statement)) },
        cs::FsTerm::Xtor(x) => TTm::Xtor { prd: false, name: x.name.clone(), ty: x.ty.clone(), args: fargs(&x.args) },
        cs::FsTerm::XCase(c) => TTm::Case { prd: false, ty: c.ty.clone(), clauses: c.clauses.iter().map(|cl| (cl.xtor.clone(), cl.context.clone(), fst(&cl.body))).collect() },
    }
}

// ---------------------------------------------------------------- checker

pub struct Decls<'a> {
    pub data: &'a [cs::DataDeclaration],
    pub codata: &'a [cs::CodataDeclaration],
    pub defs: Vec<(Identifier, TypingContext)>,
}

fn show(i: &Identifier) -> String {
    if i.id == 0 { i.name.clone() } else { format!("{}_{}", i.name, i.id) }
}

fn show_ty(t: &Ty) -> String {
    match t {
        Ty::I64 => "i64".into(),
        Ty::Decl(n) => show(n),
    }
}

struct Ck<'a> {
    d: &'a Decls<'a>,
    def: String,
    pub cuts: u64,
    pub nodes: u64,
}

type Env = Vec<ContextBinding>;

fn lookup<'e>(env: &'e Env, v: &Identifier) -> Option<&'e ContextBinding> {
    env.iter().rev().find(|b| b.var == *v)
}

impl<'a> Ck<'a> {
    fn err<T>(&self, m: String) -> Result<T, String> {
        Err(format!("in definition {}: {m}", self.def))
    }

    fn sig(&self, ty: &Ty, prd: bool, name: &Identifier) -> Result<TypingContext, String> {
        let Ty::Decl(tn) = ty else { return self.err(format!("xtor {} at type i64", show(name))) };
        // constructors / cases live in data types, destructors / cocases in codata types
        // (prd Xtor = constructor; cns Xtor = destructor)
        if prd {
            let decl = self.d.data.iter().find(|x| x.name == *tn).ok_or(format!("in definition {}: constructor {} at type {} which is not a declared data type", self.def, show(name), show(tn)))?;
            let x = decl.xtors.iter().find(|x| x.name == *name).ok_or(format!("in definition {}: data type {} has no constructor {}", self.def, show(tn), show(name)))?;
            Ok(x.args.clone())
        } else {
            let decl = self.d.codata.iter().find(|x| x.name == *tn).ok_or(format!("in definition {}: destructor {} at type {} which is not a declared codata type", self.def, show(name), show(tn)))?;
            let x = decl.xtors.iter().find(|x| x.name == *name).ok_or(format!("in definition {}: codata type {} has no destructor {}", self.def, show(tn), show(name)))?;
            Ok(x.args.clone())
        }
    }

    fn xtor_names(&self, ty: &Ty, data: bool) -> Result<Vec<Identifier>, String> {
        let Ty::Decl(tn) = ty else { return self.err("(co)match at type i64".into()) };
        if data {
            let decl = self.d.data.iter().find(|x| x.name == *tn).ok_or(format!("in definition {}: case at type {} which is not a declared data type", self.def, show(tn)))?;
            Ok(decl.xtors.iter().map(|x| x.name.clone()).collect())
        } else {
            let decl = self.d.codata.iter().find(|x| x.name == *tn).ok_or(format!("in definition {}: cocase at type {} which is not a declared codata type", self.def, show(tn)))?;
            Ok(decl.xtors.iter().map(|x| x.name.clone()).collect())
        }
    }

    fn args(&mut self, what: &str, args: &[(Chirality, TTm)], sig: &TypingContext, env: &Env) -> Result<(), String> {
        if args.len() != sig.bindings.len() {
            return self.err(format!("{what}: {} arguments for {} parameters", args.len(), sig.bindings.len()));
        }
        for (i, ((chi, t), b)) in args.iter().zip(&sig.bindings).enumerate() {
            if *chi != b.chi {
                return self.err(format!("{what}: argument {i} has the wrong chirality"));
            }
            self.tm(t, *chi == Chirality::Prd, &b.ty, env).map_err(|e| format!("{e} (argument {i} of {what})"))?;
        }
        Ok(())
    }

    fn tm(&mut self, t: &TTm, prd: bool, want: &Ty, env: &Env) -> Result<(), String> {
        self.nodes += 1;
        match t {
            TTm::Var { var, ty } => {
                let Some(b) = lookup(env, var) else { return self.err(format!("unbound {} {}", if prd { "variable" } else { "covariable" }, show(var))) };
                let want_chi = if prd { Chirality::Prd } else { Chirality::Cns };
                if b.chi != want_chi {
                    return self.err(format!("{} is used as a {} but bound as the opposite", show(var), if prd { "producer" } else { "consumer" }));
                }
                if b.ty != *want {
                    return self.err(format!("{} is bound at type {} but used at type {}", show(var), show_ty(&b.ty), show_ty(want)));
                }
                if let Some(a) = ty {
                    if a != want {
                        return self.err(format!("{} is annotated with type {} but used at type {}", show(var), show_ty(a), show_ty(want)));
                    }
                }
                Ok(())
            }
            TTm::Lit => {
                if !prd || *want != Ty::I64 {
                    return self.err(format!("literal used as {} of type {}", if prd { "producer" } else { "consumer" }, show_ty(want)));
                }
                Ok(())
            }
            TTm::Op(a, b) => {
                if !prd || *want != Ty::I64 {
                    return self.err(format!("operator used at type {}", show_ty(want)));
                }
                self.tm(a, true, &Ty::I64, env)?;
                self.tm(b, true, &Ty::I64, env)
            }
            TTm::Mu { prd: p, var, ty, body } => {
                if *p != prd {
                    return self.err("mu-abstraction of the wrong chirality".into());
                }
                if ty != want {
                    return self.err(format!("mu-abstraction annotated with {} used at type {}", show_ty(ty), show_ty(want)));
                }
                let mut e2 = env.clone();
                e2.push(ContextBinding { var: var.clone(), chi: if prd { Chirality::Cns } else { Chirality::Prd }, ty: ty.clone() });
                self.st(body, &e2)
            }
            TTm::Xtor { prd: p, name, ty, args } => {
                if *p != prd {
                    return self.err("xtor of the wrong chirality".into());
                }
                if ty != want {
                    return self.err(format!("xtor {} annotated with {} used at type {}", show(name), show_ty(ty), show_ty(want)));
                }
                let sig = self.sig(ty, prd, name)?;
                self.args(&format!("xtor {}", show(name)), args, &sig, env)
            }
            TTm::Case { prd: p, ty, clauses } => {
                if *p != prd {
                    return self.err("(co)match of the wrong chirality".into());
                }
                if ty != want {
                    return self.err(format!("(co)match annotated with {} used at type {}", show_ty(ty), show_ty(want)));
                }
                // prd case = cocase on codata; cns case = case on data
                let names = self.xtor_names(ty, !prd)?;
                if clauses.len() != names.len() {
                    return self.err(format!("(co)match on {} has {} clauses for {} xtors", show_ty(ty), clauses.len(), names.len()));
                }
                for n in &names {
                    let hits: Vec<_> = clauses.iter().filter(|c| c.0 == *n).collect();
                    if hits.len() != 1 {
                        return self.err(format!("(co)match on {} has {} clauses for xtor {}", show_ty(ty), hits.len(), show(n)));
                    }
                    let (_, ctx, body) = hits[0];
                    let sig = self.sig(ty, !prd, n)?;
                    if ctx.bindings.len() != sig.bindings.len() {
                        return self.err(format!("clause {} binds {} variables, declared {}", show(n), ctx.bindings.len(), sig.bindings.len()));
                    }
                    for (b, s) in ctx.bindings.iter().zip(&sig.bindings) {
                        if b.chi != s.chi || b.ty != s.ty {
                            return self.err(format!("clause {}: binder {} has kind/type {:?} {} but the declaration says {:?} {}", show(n), show(&b.var), b.chi, show_ty(&b.ty), s.chi, show_ty(&s.ty)));
                        }
                    }
                    let mut e2 = env.clone();
                    e2.extend(ctx.bindings.iter().cloned());
                    self.st(body, &e2)?;
                }
                Ok(())
            }
        }
    }

    fn st(&mut self, s: &TSt, env: &Env) -> Result<(), String> {
        self.nodes += 1;
        match s {
            TSt::Cut { p, ty, c } => {
                self.cuts += 1;
                self.tm(p, true, ty, env)?;
                self.tm(c, false, ty, env)
            }
            TSt::If { fst, snd, thn, els } => {
                self.tm(fst, true, &Ty::I64, env)?;
                if let Some(s) = snd {
                    self.tm(s, true, &Ty::I64, env)?;
                }
                self.st(thn, env)?;
                self.st(els, env)
            }
            TSt::Print { arg, next } => {
                self.tm(arg, true, &Ty::I64, env)?;
                self.st(next, env)
            }
            TSt::Call { name, args } => {
                let hits: Vec<_> = self.d.defs.iter().filter(|d| d.0 == *name).collect();
                if hits.len() != 1 {
                    return self.err(format!("call of {}: {} definitions with that name", show(name), hits.len()));
                }
                let sig = hits[0].1.clone();
                self.args(&format!("call {}", show(name)), args, &sig, env)
            }
            TSt::Exit { arg } => self.tm(arg, true, &Ty::I64, env),
        }
    }
}

#[derive(Default, Debug, Clone)]
pub struct TyStats {
    pub cuts: u64,
    pub nodes: u64,
    pub defs: u64,
}

fn check_defs<'a>(d: &Decls<'a>, bodies: Vec<(String, TypingContext, TSt)>) -> Result<TyStats, String> {
    let mut stats = TyStats::default();
    // declarations: xtor names unique inside a type
    for (i, a) in d.defs.iter().enumerate() {
        if d.defs[..i].iter().any(|b| b.0 == a.0) {
            return Err(format!("two definitions named {}", show(&a.0)));
        }
    }
    for (name, ctx, body) in bodies {
        let mut ck = Ck { d, def: name, cuts: 0, nodes: 0 };
        let mut seen = HashSet::new();
        for b in &ctx.bindings {
            if !seen.insert(b.var.clone()) {
                return ck.err(format!("parameter {} bound twice", show(&b.var)));
            }
        }
        let env: Env = ctx.bindings.clone();
        ck.st(&body, &env)?;
        stats.cuts += ck.cuts;
        stats.nodes += ck.nodes;
        stats.defs += 1;
    }
    Ok(stats)
}

pub fn check_prog(p: &cs::Prog) -> Result<TyStats, String> {
    let d = Decls { data: &p.data_types, codata: &p.codata_types, defs: p.defs.iter().map(|d| (d.name.clone(), d.context.clone())).collect() };
    let bodies = p.defs.iter().map(|d| (show(&d.name), d.context.clone(), st(&d.body))).collect();
    check_defs(&d, bodies)
}

pub fn check_fsprog(p: &cs::FsProg) -> Result<TyStats, String> {
    let d = Decls { data: &p.data_types, codata: &p.codata_types, defs: p.defs.iter().map(|d| (d.name.clone(), d.context.clone())).collect() };
    let bodies = p.defs.iter().map(|d| (show(&d.name), d.context.clone(), fst(&d.body))).collect();
    check_defs(&d, bodies)
}

// ---------------------------------------------------------------- uniqueness of binders (focused programs)

fn uniq_st(s: &TSt, scope: &HashSet<usize>, max_id: usize, count: &mut u64) -> Result<(), String> {
    match s {
        TSt::Cut { p, c, .. } => {
            uniq_tm(p, scope, max_id, count)?;
            uniq_tm(c, scope, max_id, count)
        }
        TSt::If { fst, snd, thn, els } => {
            uniq_tm(fst, scope, max_id, count)?;
            if let Some(s) = snd {
                uniq_tm(s, scope, max_id, count)?;
            }
            uniq_st(thn, scope, max_id, count)?;
            uniq_st(els, scope, max_id, count)
        }
        TSt::Print { arg, next } => {
            uniq_tm(arg, scope, max_id, count)?;
            uniq_st(next, scope, max_id, count)
        }
        TSt::Call { args, .. } => {
            for (_, a) in args {
                uniq_tm(a, scope, max_id, count)?;
            }
            Ok(())
        }
        TSt::Exit { arg } => uniq_tm(arg, scope, max_id, count),
    }
}

fn bind_id(scope: &HashSet<usize>, v: &Identifier, max_id: usize, count: &mut u64) -> Result<HashSet<usize>, String> {
    *count += 1;
    if v.id == 0 {
        return Err(format!("binder {} was not given a unique identifier", v.name));
    }
    if v.id > max_id {
        return Err(format!("binder {} exceeds the recorded max_id {max_id}", show(v)));
    }
    if scope.contains(&v.id) {
        return Err(format!("binder {} re-binds an identifier that is already in scope on this path", show(v)));
    }
    let mut s = scope.clone();
    s.insert(v.id);
    Ok(s)
}

fn uniq_tm(t: &TTm, scope: &HashSet<usize>, max_id: usize, count: &mut u64) -> Result<(), String> {
    match t {
        TTm::Var { var, .. } => {
            if var.id > max_id {
                return Err(format!("identifier {} exceeds the recorded max_id {max_id}", show(var)));
            }
            Ok(())
        }
        TTm::Lit => Ok(()),
        TTm::Op(a, b) => {
            uniq_tm(a, scope, max_id, count)?;
            uniq_tm(b, scope, max_id, count)
        }
        TTm::Mu { var, body, .. } => {
            let s2 = bind_id(scope, var, max_id, count)?;
            uniq_st(body, &s2, max_id, count)
        }
        TTm::Xtor { args, .. } => {
            for (_, a) in args {
                uniq_tm(a, scope, max_id, count)?;
            }
            Ok(())
        }
        TTm::Case { clauses, .. } => {
            for (_, ctx, body) in clauses {
                let mut s2 = scope.clone();
                for b in &ctx.bindings {
                    s2 = bind_id(&s2, &b.var, max_id, count)?;
                }
                uniq_st(body, &s2, max_id, count)?;
            }
            Ok(())
        }
    }
}

/// all binders along every path of every definition are pairwise distinct, distinct from the
/// parameters, and no identifier exceeds `max_id`; returns the number of binders checked
pub fn check_unique_fs(p: &cs::FsProg) -> Result<u64, String> {
    let mut count = 0;
    for d in &p.defs {
        let mut scope = HashSet::new();
        for b in &d.context.bindings {
            scope = bind_id(&scope, &b.var, p.max_id, &mut count).map_err(|e| format!("in definition {}: parameter: {e}", show(&d.name)))?;
        }
        uniq_st(&fst(&d.body), &scope, p.max_id, &mut count).map_err(|e| format!("in definition {}: {e}", show(&d.name)))?;
    }
    Ok(count)
}
