//! Token- and byte-level mutators of program text (valid UTF-8 is preserved).

use crate::rng::Rng;

pub const KEYWORDS: &[&str] = &["label", "goto", "exit", "if", "else", "print_i64", "println_i64", "let", "case", "new", "def", "data", "codata", "i64", "cns"];
pub const SYMBOLS: &[&str] = &["(", ")", "{", "}", "[", "]", ";", "=>", ",", ":", ".", "=", "==", "!=", "<", "<=", ">", ">=", "+", "*", "-", "/", "%"];

#[derive(Clone, Debug, PartialEq)]
pub enum Tok {
    Ws(String),
    Word(String),
    Num(String),
    Sym(String),
    Other(String),
}

impl Tok {
    pub fn text(&self) -> &str {
        match self {
            Tok::Ws(s) | Tok::Word(s) | Tok::Num(s) | Tok::Sym(s) | Tok::Other(s) => s,
        }
    }
}

pub fn tokenize(src: &str) -> Vec<Tok> {
    let cs: Vec<char> = src.chars().collect();
    let mut i = 0;
    let mut out = Vec::new();
    while i < cs.len() {
        let c = cs[i];
        if c.is_whitespace() {
            let st = i;
            while i < cs.len() && cs[i].is_whitespace() {
                i += 1;
            }
            out.push(Tok::Ws(cs[st..i].iter().collect()));
        } else if c.is_ascii_alphabetic() || c == '_' {
            let st = i;
            while i < cs.len() && (cs[i].is_ascii_alphanumeric() || cs[i] == '_') {
                i += 1;
            }
            out.push(Tok::Word(cs[st..i].iter().collect()));
        } else if c.is_ascii_digit() {
            let st = i;
            while i < cs.len() && cs[i].is_ascii_digit() {
                i += 1;
            }
            out.push(Tok::Num(cs[st..i].iter().collect()));
        } else {
            let two: String = cs[i..(i + 2).min(cs.len())].iter().collect();
            if ["=>", "==", "!=", "<=", ">=", "//"].contains(&two.as_str()) {
                if two == "//" {
                    let st = i;
                    while i < cs.len() && cs[i] != '\n' {
                        i += 1;
                    }
                    out.push(Tok::Other(cs[st..i].iter().collect()));
                } else {
                    out.push(Tok::Sym(two));
                    i += 2;
                }
            } else if SYMBOLS.contains(&c.to_string().as_str()) {
                out.push(Tok::Sym(c.to_string()));
                i += 1;
            } else {
                out.push(Tok::Other(c.to_string()));
                i += 1;
            }
        }
    }
    out
}

pub fn untokenize(t: &[Tok]) -> String {
    t.iter().map(|x| x.text()).collect()
}

fn significant(t: &[Tok]) -> Vec<usize> {
    t.iter().enumerate().filter(|(_, x)| !matches!(x, Tok::Ws(_))).map(|(i, _)| i).collect()
}

const EXTREME_NUMS: &[&str] = &[
    "9223372036854775807",
    "9223372036854775808",
    "18446744073709551615",
    "18446744073709551616",
    "99999999999999999999999999999999999999",
    "0",
    "00",
    "007",
    "4294967296",
    "2147483648",
];

/// one token-level mutation; returns a description
pub fn mutate_tokens(src: &str, rng: &mut Rng) -> (String, &'static str) {
    let mut t = tokenize(src);
    let sig = significant(&t);
    if sig.is_empty() {
        return (src.to_string(), "none");
    }
    let i = *rng.pick(&sig);
    let kind = rng.below(9);
    let what = match kind {
        0 => {
            t.remove(i);
            "delete token"
        }
        1 => {
            let x = t[i].clone();
            t.insert(i, Tok::Ws(" ".into()));
            t.insert(i, x);
            "duplicate token"
        }
        2 => {
            let j = *rng.pick(&sig);
            t.swap(i, j);
            "swap tokens"
        }
        3 => {
            t[i] = Tok::Word(rng.pick(KEYWORDS).to_string());
            "replace by keyword"
        }
        4 => {
            t[i] = Tok::Sym(rng.pick(SYMBOLS).to_string());
            "replace by symbol"
        }
        5 => {
            t[i] = Tok::Num(rng.pick(EXTREME_NUMS).to_string());
            "replace by extreme literal"
        }
        6 => {
            let words: Vec<String> = t.iter().filter_map(|x| if let Tok::Word(w) = x { Some(w.clone()) } else { None }).collect();
            if !words.is_empty() {
                t[i] = Tok::Word(rng.pick(&words).clone());
            }
            "replace by another identifier of the program"
        }
        7 => {
            // delete a range of tokens
            let n = 1 + rng.below(6);
            for _ in 0..n {
                if i < t.len() {
                    t.remove(i);
                }
            }
            "delete token range"
        }
        _ => {
            // turn every literal into an extreme one
            let e = rng.pick(EXTREME_NUMS).to_string();
            for x in t.iter_mut() {
                if let Tok::Num(_) = x {
                    if rng.chance(1, 3) {
                        *x = Tok::Num(e.clone());
                    }
                }
            }
            "extreme literals"
        }
    };
    (untokenize(&t), what)
}

/// one byte/char-level mutation (result is valid UTF-8)
pub fn mutate_chars(src: &str, rng: &mut Rng) -> (String, &'static str) {
    let mut cs: Vec<char> = src.chars().collect();
    if cs.is_empty() {
        return (String::new(), "none");
    }
    let i = rng.below(cs.len());
    let odd = ['\0', '\u{7f}', 'é', '→', '\u{feff}', '\u{202e}', '𝔘', '\r', '\t', '"', '\'', '\\', '#', '@', '$', '`', '|', '&', '^', '~', '?', '!'];
    match rng.below(7) {
        0 => {
            cs[i] = char::from_u32((cs[i] as u32) ^ (1 << rng.below(7))).filter(|c| !c.is_control() || *c == '\n').unwrap_or('?');
            (cs.iter().collect(), "flip a bit of one character")
        }
        1 => {
            cs.insert(i, *rng.pick(&odd));
            (cs.iter().collect(), "insert an unusual character")
        }
        2 => {
            cs.truncate(i);
            (cs.iter().collect(), "truncate")
        }
        3 => {
            cs.remove(i);
            (cs.iter().collect(), "delete a character")
        }
        4 => {
            let n = 1 + rng.below(400);
            let d = char::from_digit(rng.below(10) as u32, 10).unwrap();
            for _ in 0..n {
                cs.insert(i, d);
            }
            (cs.iter().collect(), "insert a very long digit string")
        }
        5 => {
            let c = cs[i];
            for _ in 0..rng.below(300) {
                cs.insert(i, c);
            }
            (cs.iter().collect(), "repeat a character")
        }
        _ => {
            let j = rng.below(cs.len());
            let (a, b) = (i.min(j), i.max(j));
            let seg: Vec<char> = cs[a..b].to_vec();
            for (k, c) in seg.into_iter().enumerate() {
                cs.insert(a + k, c);
            }
            (cs.iter().collect(), "duplicate a segment")
        }
    }
}

/// deeply nested but small programs
pub fn nested(kind: usize, depth: usize) -> String {
    let mut body = String::new();
    match kind % 6 {
        0 => {
            body.push_str(&"(".repeat(depth));
            body.push('1');
            body.push_str(&")".repeat(depth));
        }
        1 => {
            for _ in 0..depth {
                body.push_str("if x == 0 { 1 } else { ");
            }
            body.push('2');
            body.push_str(&" }".repeat(depth));
        }
        2 => {
            for i in 0..depth {
                body.push_str(&format!("let v{i}: i64 = x + {i}; "));
            }
            body.push('x');
        }
        3 => {
            body.push('x');
            for i in 0..depth {
                body = format!("({body} + {i})");
            }
        }
        4 => {
            for _ in 0..depth {
                body.push_str("label a { ");
            }
            body.push_str("goto a(x)");
            body.push_str(&" }".repeat(depth));
        }
        _ => {
            for _ in 0..depth {
                body.push_str("print_i64(x); ");
            }
            body.push('0');
        }
    }
    format!("def main(x: i64): i64 {{ {body} }}")
}

/// names a compiler has to cope with: very long, ending in more digits than fit into a machine
/// word, ending in the largest 64-bit numbers, with leading zeros, underscores only
const EXTREME_NAMES: &[&str] = &[
    "x99999999999999999999",
    "v18446744073709551615",
    "v18446744073709551616",
    "a9223372036854775807",
    "x0000000000000000000000000000000000000001",
    "k340282366920938463463374607431768211456",
    "x00",
    "x_0",
    "___",
    "_0",
    "x1x1x1x1x1x1x1x1x1x1x1x1x1x1x1x1x1x1x1x1x1x1x1x1x1x1x1x1x1x1x1x1x1x1x1x1x1x1x1x1",
];

/// a valid program stays valid: every occurrence of one or two lower-case identifiers (variables,
/// labels, definitions, destructors) is replaced by an extreme name that the program does not use
pub fn rename_to_extreme(src: &str, rng: &mut Rng) -> (String, String) {
    let mut t = tokenize(src);
    let mut what = Vec::new();
    for _ in 0..1 + rng.below(2) {
        let words: Vec<String> = t
            .iter()
            .filter_map(|x| match x {
                Tok::Word(w) if w.chars().next().is_some_and(|c| c.is_ascii_lowercase() || c == '_') && !KEYWORDS.contains(&w.as_str()) && w != "main" => Some(w.clone()),
                _ => None,
            })
            .collect();
        if words.is_empty() {
            break;
        }
        let from = rng.pick(&words).clone();
        let to = if rng.chance(1, 6) { format!("{}{}", from, "9".repeat(20 + rng.below(30))) } else if rng.chance(1, 8) { "long_".repeat(200 + rng.below(400)) } else { rng.pick(EXTREME_NAMES).to_string() };
        if t.iter().any(|x| matches!(x, Tok::Word(w) if *w == to)) {
            continue;
        }
        for x in t.iter_mut() {
            if matches!(x, Tok::Word(w) if *w == from) {
                *x = Tok::Word(to.clone());
            }
        }
        what.push(format!("{from} -> {}", if to.len() > 60 { format!("{}... ({} characters)", &to[..40], to.len()) } else { to }));
    }
    (untokenize(&t), what.join(", "))
}
