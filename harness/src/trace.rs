//! The observable of every level: sequence of print events, then result / undefined.

use crate::json::J;

#[derive(Clone, Copy, Debug, PartialEq, Eq, Hash)]
pub struct PrintEv {
    pub value: i64,
    pub newline: bool,
}

#[derive(Clone, Debug, PartialEq, Eq)]
pub enum Undefined {
    /// division by zero or overflowing division: outside the domain of the source semantics
    Arith,
    /// step / output budget exhausted (bounded progress: inconclusive)
    Fuel,
    /// heap budget exhausted ("enough heap" precondition)
    Heap,
    /// the machine itself detected an ill-formed program (a finding for the stage that produced it)
    Internal(&'static str),
    /// same, with a dynamic message
    Stuck(String),
}

#[derive(Clone, Debug, PartialEq, Eq)]
pub struct Outcome {
    pub prints: Vec<PrintEv>,
    pub end: Result<i64, Undefined>,
}

impl Outcome {
    pub fn defined(&self) -> bool {
        self.end.is_ok()
    }
    /// bytes a native run must write
    pub fn render(&self) -> Vec<u8> {
        let mut s = String::new();
        for p in &self.prints {
            s.push_str(&p.value.to_string());
            if p.newline {
                s.push('\n');
            }
        }
        s.into_bytes()
    }
    pub fn short(&self) -> String {
        let mut s = String::new();
        for (i, p) in self.prints.iter().enumerate() {
            if i >= 12 {
                s.push_str("...");
                break;
            }
            s.push_str(&p.value.to_string());
            s.push(if p.newline { '\n' } else { ' ' });
        }
        format!("prints[{}]={:?} end={:?}", self.prints.len(), s, self.end)
    }
    pub fn to_json(&self) -> J {
        let pr: Vec<J> = self
            .prints
            .iter()
            .take(64)
            .map(|p| J::s(format!("{}{}", p.value, if p.newline { "\\n" } else { "" })))
            .collect();
        J::obj()
            .with("n_prints", J::i(self.prints.len() as i64))
            .with("prints_head", J::Arr(pr))
            .with("end", J::s(format!("{:?}", self.end)))
    }
}

/// Compare a reference outcome with a candidate.  `None` = agree.
pub fn diff(reference: &Outcome, got: &Outcome) -> Option<String> {
    for (i, (a, b)) in reference.prints.iter().zip(got.prints.iter()).enumerate() {
        if a != b {
            return Some(format!("print #{i}: expected {:?} got {:?}", a, b));
        }
    }
    if reference.prints.len() != got.prints.len() {
        return Some(format!(
            "number of prints: expected {} got {} (end expected {:?} got {:?})",
            reference.prints.len(),
            got.prints.len(),
            reference.end,
            got.end
        ));
    }
    if reference.end != got.end {
        return Some(format!("result: expected {:?} got {:?}", reference.end, got.end));
    }
    None
}
