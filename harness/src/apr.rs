//! Abstract program representation (APR) of Fun programs used by the generator, the harness'
//! own printer and the CEK reference machine.  Binders are unique integers; names are a separate
//! layer so the same tree can be printed under a colliding / hostile naming policy and as its
//! alpha-renamed twin (all binder names distinct).

use std::fmt::Write;

#[derive(Clone, Debug, PartialEq, Eq, Hash, Copy)]
pub enum Ty {
    I64,
    Inst(usize),
}

#[derive(Clone, Debug, PartialEq, Eq, Hash)]
pub enum TyT {
    I64,
    Param(usize),
    App(usize, Vec<TyT>),
}

#[derive(Clone, Debug)]
pub struct FieldT {
    pub name: String,
    pub cns: bool,
    pub ty: TyT,
}

#[derive(Clone, Debug)]
pub struct XtorT {
    pub name: String,
    pub fields: Vec<FieldT>,
    /// destructor result type (unused for constructors)
    pub ret: TyT,
}

#[derive(Clone, Debug)]
pub struct Template {
    pub name: String,
    pub is_data: bool,
    pub params: Vec<String>,
    pub xtors: Vec<XtorT>,
}

#[derive(Clone, Debug)]
pub struct XtorI {
    pub fields: Vec<(bool, Ty)>,
    pub ret: Ty,
}

#[derive(Clone, Debug)]
pub struct Inst {
    pub tmpl: usize,
    pub args: Vec<Ty>,
    pub xtors: Vec<XtorI>,
}

#[derive(Clone, Debug)]
pub struct Binder {
    pub name: String,
    pub ty: Ty,
    pub cns: bool,
}

#[derive(Clone, Copy, Debug, PartialEq, Eq, Hash)]
pub enum BinOp {
    Add,
    Sub,
    Mul,
    Div,
    Rem,
}

#[derive(Clone, Copy, Debug, PartialEq, Eq, Hash)]
pub enum Cmp {
    Eq,
    Ne,
    Lt,
    Le,
    Gt,
    Ge,
}

impl Cmp {
    pub fn eval(self, a: i64, b: i64) -> bool {
        match self {
            Cmp::Eq => a == b,
            Cmp::Ne => a != b,
            Cmp::Lt => a < b,
            Cmp::Le => a <= b,
            Cmp::Gt => a > b,
            Cmp::Ge => a >= b,
        }
    }
    pub fn sym(self) -> &'static str {
        match self {
            Cmp::Eq => "==",
            Cmp::Ne => "!=",
            Cmp::Lt => "<",
            Cmp::Le => "<=",
            Cmp::Gt => ">",
            Cmp::Ge => ">=",
        }
    }
    pub const ALL: [Cmp; 6] = [Cmp::Eq, Cmp::Ne, Cmp::Lt, Cmp::Le, Cmp::Gt, Cmp::Ge];
}

impl BinOp {
    pub fn sym(self) -> &'static str {
        match self {
            BinOp::Add => "+",
            BinOp::Sub => "-",
            BinOp::Mul => "*",
            BinOp::Div => "/",
            BinOp::Rem => "%",
        }
    }
    /// None = undefined in the source semantics (division by zero / overflowing division)
    pub fn eval(self, a: i64, b: i64) -> Option<i64> {
        match self {
            BinOp::Add => Some(a.wrapping_add(b)),
            BinOp::Sub => Some(a.wrapping_sub(b)),
            BinOp::Mul => Some(a.wrapping_mul(b)),
            BinOp::Div => {
                if b == 0 || (a == i64::MIN && b == -1) {
                    None
                } else {
                    Some(a / b)
                }
            }
            BinOp::Rem => {
                if b == 0 || (a == i64::MIN && b == -1) {
                    None
                } else {
                    Some(a % b)
                }
            }
        }
    }
}

#[derive(Clone, Debug)]
pub enum Arg {
    T(T),
    Covar(usize),
}

#[derive(Clone, Debug)]
pub struct ClauseA {
    pub binders: Vec<usize>,
    pub body: T,
}

#[derive(Clone, Debug)]
pub enum T {
    Lit(i64),
    Var(usize),
    Op(Box<T>, BinOp, Box<T>),
    /// `snd == None`: comparison with zero; `zero_left`: print as `0 <cmp'> t`
    If { cmp: Cmp, fst: Box<T>, snd: Option<Box<T>>, zero_left: bool, thn: Box<T>, els: Box<T> },
    Print { newline: bool, arg: Box<T>, next: Box<T> },
    Let { b: usize, bound: Box<T>, body: Box<T> },
    Call { def: usize, args: Vec<Arg> },
    Ctor { inst: usize, idx: usize, args: Vec<Arg> },
    Dtor { scrut: Box<T>, inst: usize, idx: usize, args: Vec<Arg> },
    /// clauses indexed by constructor index; `order` = printing order
    Case { scrut: Box<T>, inst: usize, clauses: Vec<ClauseA>, order: Vec<usize> },
    New { inst: usize, clauses: Vec<ClauseA>, order: Vec<usize> },
    Label { b: usize, body: Box<T> },
    Goto { b: usize, arg: Box<T> },
    Exit(Box<T>),
}

#[derive(Clone, Debug)]
pub struct Def {
    pub name: String,
    pub params: Vec<usize>,
    pub ret: Ty,
    pub body: T,
}

#[derive(Clone, Debug, Default)]
pub struct Prog {
    pub templates: Vec<Template>,
    pub insts: Vec<Inst>,
    pub defs: Vec<Def>,
    pub binders: Vec<Binder>,
    pub main: usize,
}

impl Prog {
    /// declared names must be pairwise distinct (a generator that violates this would make the
    /// checks blame the compiler for rejecting the program)
    pub fn self_check(&self) -> Result<(), String> {
        let mut seen = std::collections::HashSet::new();
        for t in &self.templates {
            if !seen.insert(format!("type {}", t.name)) {
                return Err(format!("type {} declared twice", t.name));
            }
            for x in &t.xtors {
                let k = if t.is_data { "ctor" } else { "dtor" };
                if !seen.insert(format!("{k} {}", x.name)) {
                    return Err(format!("{k} {} declared twice", x.name));
                }
            }
        }
        for d in &self.defs {
            if !seen.insert(format!("def {}", d.name)) {
                return Err(format!("definition {} declared twice", d.name));
            }
        }
        Ok(())
    }
    pub fn is_codata(&self, ty: Ty) -> bool {
        match ty {
            Ty::I64 => false,
            Ty::Inst(i) => !self.templates[self.insts[i].tmpl].is_data,
        }
    }
    pub fn is_data(&self, ty: Ty) -> bool {
        match ty {
            Ty::I64 => false,
            Ty::Inst(i) => self.templates[self.insts[i].tmpl].is_data,
        }
    }

    pub fn subst(&mut self, t: &TyT, args: &[Ty]) -> Ty {
        match t {
            TyT::I64 => Ty::I64,
            TyT::Param(i) => args[*i],
            TyT::App(tm, targs) => {
                let a: Vec<Ty> = targs.iter().map(|x| self.subst(x, args)).collect();
                Ty::Inst(self.instantiate(*tm, a))
            }
        }
    }

    /// intern the monomorphic instance `templates[tmpl][args]`
    pub fn instantiate(&mut self, tmpl: usize, args: Vec<Ty>) -> usize {
        if let Some(i) = self.insts.iter().position(|x| x.tmpl == tmpl && x.args == args) {
            return i;
        }
        let idx = self.insts.len();
        self.insts.push(Inst { tmpl, args: args.clone(), xtors: Vec::new() });
        let xt = self.templates[tmpl].xtors.clone();
        let mut xs = Vec::new();
        for x in &xt {
            let fields = x.fields.iter().map(|f| (f.cns, self.subst(&f.ty, &args))).collect();
            let ret = self.subst(&x.ret, &args);
            xs.push(XtorI { fields, ret });
        }
        self.insts[idx].xtors = xs;
        idx
    }

    pub fn ty_str(&self, ty: Ty) -> String {
        match ty {
            Ty::I64 => "i64".to_string(),
            Ty::Inst(i) => {
                let inst = &self.insts[i];
                let mut s = self.templates[inst.tmpl].name.clone();
                s.push_str(&self.targs_str(i));
                s
            }
        }
    }

    pub fn targs_str(&self, inst: usize) -> String {
        let inst = &self.insts[inst];
        if inst.args.is_empty() {
            String::new()
        } else {
            let a: Vec<String> = inst.args.iter().map(|t| self.ty_str(*t)).collect();
            format!("[{}]", a.join(", "))
        }
    }

    fn tyt_str(&self, t: &TyT, params: &[String]) -> String {
        match t {
            TyT::I64 => "i64".into(),
            TyT::Param(i) => params[*i].clone(),
            TyT::App(tm, args) => {
                let mut s = self.templates[*tm].name.clone();
                if !args.is_empty() {
                    let a: Vec<String> = args.iter().map(|x| self.tyt_str(x, params)).collect();
                    let _ = write!(s, "[{}]", a.join(", "));
                }
                s
            }
        }
    }
}

/// Names used when printing: either the binder's own (policy) name or a unique name.
#[derive(Clone, Copy, PartialEq, Eq, Debug)]
pub enum Naming {
    Policy,
    Unique,
}

/// Byte ranges of syntactic sites in the printed text (used by the C15 mutators).
#[derive(Clone, Debug)]
pub enum Site {
    VarUse(usize, usize),
    CovarUse(usize, usize),
    DefUse(usize, usize),
    CtorUse(usize, usize),
    DtorUse(usize, usize),
    TypeUse(usize, usize),
    /// argument list of a call / constructor / destructor: `insert_at` is where "(...)" goes when absent
    ArgList { open: usize, close: usize, present: bool, n: usize, last_start: usize, insert_at: usize },
    IntArg(usize, usize),
    ObjArg(usize, usize, Ty),
    Clauses { ranges: Vec<(usize, usize)>, is_case: bool, inst: usize },
    Binders { open: usize, close: usize, present: bool, n: usize, insert_at: usize },
    TypeArgs { a: usize, b: usize, present: bool },
    LabelBody { name: String, a: usize, b: usize },
    LetBody { name: String, a: usize, b: usize },
    DefText { a: usize, b: usize, def: usize },
    DeclText { a: usize, b: usize },
    XtorDecl { a: usize, b: usize },
    Params { open: usize, close: usize, n: usize, first: (usize, usize) },
    TypeParams { a: usize, b: usize, n: usize },
    RetType { a: usize, b: usize, def: usize },
    FieldType { a: usize, b: usize, is_app: bool },
    /// an occurrence of a type parameter of the enclosing declaration in a field or result type
    TypeParamUse(usize, usize),
}

pub struct Printer<'a> {
    pub p: &'a Prog,
    pub naming: Naming,
    pub out: String,
    pub indent: usize,
    /// syntactic noise for the formatter checks: redundant parentheses, trailing commas,
    /// comments, odd spacing, `-0` and empty argument lists
    pub noise: Option<crate::rng::Rng>,
    pub neg_zero_emitted: bool,
    pub sites: Vec<Site>,
}

const L_TERM: u8 = 4;
const L_T3: u8 = 3;
const L_T2: u8 = 2;
const L_T1: u8 = 1;

impl<'a> Printer<'a> {
    pub fn new(p: &'a Prog, naming: Naming) -> Self {
        Printer { p, naming, out: String::new(), indent: 0, noise: None, neg_zero_emitted: false, sites: Vec::new() }
    }

    /// records every identifier token of the output from `from` on that is one of `params`
    fn type_param_uses(&mut self, from: usize, params: &[String]) {
        let text = self.out[from..].to_string();
        let mut start = None;
        for (i, ch) in text.char_indices().chain(std::iter::once((text.len(), ' '))) {
            let ident = ch.is_alphanumeric() || ch == '_';
            match (start, ident) {
                (None, true) => start = Some(i),
                (Some(st), false) => {
                    if params.iter().any(|p| p == &text[st..i]) {
                        self.sites.push(Site::TypeParamUse(from + st, from + i));
                    }
                    start = None;
                }
                _ => {}
            }
        }
    }

    pub fn bname(&self, b: usize) -> String {
        match self.naming {
            Naming::Policy => self.p.binders[b].name.clone(),
            Naming::Unique => format!("v{b}"),
        }
    }

    fn chance(&mut self, num: u32, den: u32) -> bool {
        match &mut self.noise {
            Some(r) => r.chance(num, den),
            None => false,
        }
    }

    fn nl(&mut self) {
        if self.chance(1, 12) {
            self.out.push_str(" // note");
        } else if self.chance(1, 10) {
            self.out.push(' ');
            return;
        }
        self.out.push('\n');
        for _ in 0..self.indent {
            self.out.push_str("  ");
        }
    }

    pub fn program_with_flag(self) -> (String, bool) {
        let mut me = self;
        let text = me.program_inner();
        (text, me.neg_zero_emitted)
    }

    pub fn program(mut self) -> String {
        self.program_inner()
    }

    fn program_inner(&mut self) -> String {
        let p = self.p;
        for t in &p.templates {
            let decl_start = self.out.len();
            let kw = if t.is_data { "data" } else { "codata" };
            let _ = write!(self.out, "{kw} {}", t.name);
            if !t.params.is_empty() {
                let a = self.out.len();
                let _ = write!(self.out, "[{}]", t.params.join(", "));
                self.sites.push(Site::TypeParams { a, b: self.out.len(), n: t.params.len() });
            }
            self.out.push_str(" { ");
            for (i, x) in t.xtors.iter().enumerate() {
                if i > 0 {
                    self.out.push_str(", ");
                }
                let xa = self.out.len();
                self.out.push_str(&x.name);
                if !x.fields.is_empty() {
                    self.out.push('(');
                    for (fi, f) in x.fields.iter().enumerate() {
                        if fi > 0 {
                            self.out.push_str(", ");
                        }
                        let _ = write!(self.out, "{}:{} ", f.name, if f.cns { "cns" } else { "" });
                        let a = self.out.len();
                        self.out.push_str(&p.tyt_str(&f.ty, &t.params));
                        self.sites.push(Site::FieldType { a, b: self.out.len(), is_app: matches!(f.ty, TyT::App(..)) });
                        self.type_param_uses(a, &t.params);
                    }
                    self.out.push(')');
                }
                if !t.is_data {
                    let ra = self.out.len();
                    let _ = write!(self.out, " : {}", p.tyt_str(&x.ret, &t.params));
                    self.type_param_uses(ra, &t.params);
                }
                self.sites.push(Site::XtorDecl { a: xa, b: self.out.len() });
            }
            self.out.push_str(" }\n");
            self.sites.push(Site::DeclText { a: decl_start, b: self.out.len() });
        }
        for (di, d) in p.defs.iter().enumerate() {
            let def_start = self.out.len();
            let _ = write!(self.out, "def {}(", d.name);
            let open = self.out.len() - 1;
            let mut first = (0, 0);
            for (i, b) in d.params.iter().enumerate() {
                if i > 0 {
                    self.out.push_str(", ");
                }
                let pa = self.out.len();
                let bi = &p.binders[*b];
                let _ = write!(self.out, "{}:{} ", self.bname(*b), if bi.cns { "cns" } else { "" });
                let ta = self.out.len();
                self.out.push_str(&p.ty_str(bi.ty));
                if bi.ty != Ty::I64 {
                    self.sites.push(Site::TypeUse(ta, self.out.len()));
                }
                if i == 0 {
                    first = (pa, self.out.len());
                }
            }
            let close = self.out.len();
            self.sites.push(Site::Params { open, close, n: d.params.len(), first });
            self.out.push_str(") : ");
            let ra = self.out.len();
            self.out.push_str(&p.ty_str(d.ret));
            self.sites.push(Site::RetType { a: ra, b: self.out.len(), def: di });
            self.out.push_str(" {");
            self.indent = 1;
            self.nl();
            self.term(&d.body, L_TERM);
            self.indent = 0;
            self.nl();
            self.out.push_str("}\n");
            self.sites.push(Site::DefText { a: def_start, b: self.out.len(), def: di });
        }
        std::mem::take(&mut self.out)
    }

    fn level(t: &T) -> u8 {
        match t {
            T::Print { .. } => L_TERM,
            T::If { .. } | T::Label { .. } | T::Goto { .. } | T::Exit(_) | T::Op(..) | T::Let { .. } => L_T3,
            T::New { .. } | T::Ctor { .. } | T::Dtor { .. } | T::Case { .. } => L_T2,
            T::Lit(_) | T::Var(_) | T::Call { .. } => L_T1,
        }
    }

    /// prints "(args)" (or nothing for an empty list when `always_parens` is false) and records sites
    fn arg_list(&mut self, args: &[Arg], sig: &[(bool, Ty)], always_parens: bool) {
        let insert_at = self.out.len();
        if args.is_empty() && !always_parens {
            if self.chance(1, 4) {
                self.out.push_str("()");
            } else {
                self.sites.push(Site::ArgList { open: insert_at, close: insert_at, present: false, n: 0, last_start: insert_at, insert_at });
            }
            return;
        }
        let open = self.out.len();
        self.out.push('(');
        let mut last_start = self.out.len();
        for (i, a) in args.iter().enumerate() {
            if i > 0 {
                self.out.push_str(", ");
            }
            last_start = self.out.len();
            match a {
                Arg::T(t) => {
                    self.term(t, L_TERM);
                    match sig.get(i) {
                        Some((_, Ty::I64)) => self.sites.push(Site::IntArg(last_start, self.out.len())),
                        Some((_, t)) => self.sites.push(Site::ObjArg(last_start, self.out.len(), *t)),
                        None => {}
                    }
                }
                Arg::Covar(b) => {
                    let n = self.bname(*b);
                    self.out.push_str(&n);
                    self.sites.push(Site::CovarUse(last_start, self.out.len()));
                }
            }
        }
        if !args.is_empty() && self.chance(1, 10) {
            self.out.push_str(", ");
        }
        let close = self.out.len();
        self.out.push(')');
        self.sites.push(Site::ArgList { open, close, present: true, n: args.len(), last_start, insert_at });
    }

    #[allow(dead_code)]
    fn args(&mut self, args: &[Arg]) {
        for (i, a) in args.iter().enumerate() {
            if i > 0 {
                self.out.push_str(", ");
            }
            match a {
                Arg::T(t) => self.term(t, L_TERM),
                Arg::Covar(b) => {
                    let n = self.bname(*b);
                    self.out.push_str(&n)
                }
            }
        }
        if !args.is_empty() && self.chance(1, 10) {
            self.out.push_str(", ");
        }
    }

    /// operand of a comparison: never lets a bare `0` touch the comparison token
    fn cmp_operand(&mut self, t: &T) {
        match t {
            T::Lit(0) => {
                if self.chance(1, 2) {
                    self.neg_zero_emitted = true;
                    self.out.push_str("-0")
                } else {
                    self.out.push_str("(0)")
                }
            }
            _ => self.term(t, L_T1),
        }
    }

    fn clauses(&mut self, inst: usize, clauses: &[ClauseA], order: &[usize]) {
        let p = self.p;
        let tm = &p.templates[p.insts[inst].tmpl];
        self.out.push_str("{");
        self.indent += 1;
        let mut ranges = Vec::new();
        for (n, &ci) in order.iter().enumerate() {
            if n > 0 {
                self.out.push(',');
            }
            self.nl();
            let ca = self.out.len();
            let c = &clauses[ci];
            self.out.push_str(&tm.xtors[ci].name);
            let insert_at = self.out.len();
            if !c.binders.is_empty() {
                let bs: Vec<String> = c.binders.iter().map(|b| self.bname(*b)).collect();
                let open = self.out.len();
                let _ = write!(self.out, "({})", bs.join(", "));
                self.sites.push(Site::Binders { open, close: self.out.len() - 1, present: true, n: bs.len(), insert_at });
            } else {
                self.sites.push(Site::Binders { open: insert_at, close: insert_at, present: false, n: 0, insert_at });
            }
            self.out.push_str(" => ");
            self.term(&c.body, L_TERM);
            ranges.push((ca, self.out.len()));
        }
        self.sites.push(Site::Clauses { ranges, is_case: tm.is_data, inst });
        self.indent -= 1;
        self.nl();
        self.out.push('}');
    }

    pub fn term(&mut self, t: &T, max: u8) {
        if self.chance(1, 14) {
            self.out.push('(');
            if self.chance(1, 3) {
                self.out.push(' ');
            }
            self.term(t, L_TERM);
            self.out.push(')');
            return;
        }
        if Self::level(t) > max {
            self.out.push('(');
            self.term(t, L_TERM);
            self.out.push(')');
            return;
        }
        let p = self.p;
        match t {
            T::Lit(n) => {
                let _ = write!(self.out, "{n}");
            }
            T::Var(b) => {
                let n = self.bname(*b);
                let a = self.out.len();
                self.out.push_str(&n);
                self.sites.push(Site::VarUse(a, self.out.len()));
            }
            T::Op(a, op, b) => {
                self.term(a, L_T1);
                let _ = write!(self.out, " {} ", op.sym());
                self.term(b, L_T1);
            }
            T::If { cmp, fst, snd, zero_left, thn, els } => {
                self.out.push_str("if ");
                match snd {
                    Some(s) => {
                        self.cmp_operand(fst);
                        let _ = write!(self.out, " {} ", cmp.sym());
                        self.cmp_operand(s);
                    }
                    None => {
                        if *zero_left {
                            // `0 <cmp'> t` means t <cmp> 0 with the mirrored comparison
                            let m = match cmp {
                                Cmp::Eq => "==",
                                Cmp::Ne => "!=",
                                Cmp::Lt => ">",
                                Cmp::Le => ">=",
                                Cmp::Gt => "<",
                                Cmp::Ge => "<=",
                            };
                            let _ = write!(self.out, "0 {m} ");
                            self.term(fst, L_T1);
                        } else {
                            self.term(fst, L_T1);
                            let _ = write!(self.out, " {} 0", cmp.sym());
                        }
                    }
                }
                self.out.push_str(" {");
                self.indent += 1;
                self.nl();
                self.term(thn, L_TERM);
                self.indent -= 1;
                self.nl();
                self.out.push_str("} else {");
                self.indent += 1;
                self.nl();
                self.term(els, L_TERM);
                self.indent -= 1;
                self.nl();
                self.out.push('}');
            }
            T::Print { newline, arg, next } => {
                self.out.push_str(if *newline { "println_i64(" } else { "print_i64(" });
                self.term(arg, L_TERM);
                self.out.push_str(");");
                self.nl();
                self.term(next, L_TERM);
            }
            T::Let { b, bound, body } => {
                let n = self.bname(*b);
                let ty = p.ty_str(p.binders[*b].ty);
                let _ = write!(self.out, "let {n}: ");
                let ta = self.out.len();
                self.out.push_str(&ty);
                if p.binders[*b].ty != Ty::I64 {
                    self.sites.push(Site::TypeUse(ta, self.out.len()));
                }
                self.out.push_str(" = ");
                self.term(bound, L_T3);
                self.out.push(';');
                self.nl();
                let ba = self.out.len();
                self.term(body, L_TERM);
                self.sites.push(Site::LetBody { name: n, a: ba, b: self.out.len() });
            }
            T::Call { def, args } => {
                let a = self.out.len();
                self.out.push_str(&p.defs[*def].name);
                self.sites.push(Site::DefUse(a, self.out.len()));
                let sig: Vec<(bool, Ty)> = p.defs[*def].params.iter().map(|b| (p.binders[*b].cns, p.binders[*b].ty)).collect();
                self.arg_list(args, &sig, true);
            }
            T::Ctor { inst, idx, args } => {
                let tm = &p.templates[p.insts[*inst].tmpl];
                let a = self.out.len();
                self.out.push_str(&tm.xtors[*idx].name);
                self.sites.push(Site::CtorUse(a, self.out.len()));
                let sig = p.insts[*inst].xtors[*idx].fields.clone();
                self.arg_list(args, &sig, false);
            }
            T::Dtor { scrut, inst, idx, args } => {
                self.term(scrut, L_T2);
                let tm = &p.templates[p.insts[*inst].tmpl];
                self.out.push('.');
                let a = self.out.len();
                self.out.push_str(&tm.xtors[*idx].name);
                self.sites.push(Site::DtorUse(a, self.out.len()));
                let ta = self.out.len();
                let targs = p.targs_str(*inst);
                self.out.push_str(&targs);
                self.sites.push(Site::TypeArgs { a: ta, b: self.out.len(), present: !targs.is_empty() });
                let sig = p.insts[*inst].xtors[*idx].fields.clone();
                self.arg_list(args, &sig, false);
            }
            T::Case { scrut, inst, clauses, order } => {
                self.term(scrut, L_T2);
                self.out.push_str(".case");
                let ta = self.out.len();
                let targs = p.targs_str(*inst);
                self.out.push_str(&targs);
                self.sites.push(Site::TypeArgs { a: ta, b: self.out.len(), present: !targs.is_empty() });
                self.out.push(' ');
                self.clauses(*inst, clauses, order);
            }
            T::New { inst, clauses, order } => {
                self.out.push_str("new ");
                self.clauses(*inst, clauses, order);
            }
            T::Label { b, body } => {
                let n = self.bname(*b);
                let _ = write!(self.out, "label {n} {{ ");
                let ba = self.out.len();
                self.term(body, L_TERM);
                self.sites.push(Site::LabelBody { name: n, a: ba, b: self.out.len() });
                self.out.push_str(" }");
            }
            T::Goto { b, arg } => {
                let n = self.bname(*b);
                self.out.push_str("goto ");
                let a = self.out.len();
                self.out.push_str(&n);
                self.sites.push(Site::CovarUse(a, self.out.len()));
                self.out.push('(');
                self.term(arg, L_TERM);
                self.out.push(')');
            }
            T::Exit(a) => {
                self.out.push_str("exit ");
                self.term(a, L_TERM);
            }
        }
    }
}

pub fn print_prog(p: &Prog, naming: Naming) -> String {
    Printer::new(p, naming).program()
}

/// text plus the byte ranges of its syntactic sites
pub fn print_prog_sites(p: &Prog, naming: Naming) -> (String, Vec<Site>) {
    let mut pr = Printer::new(p, naming);
    let text = pr.program_inner();
    (text, std::mem::take(&mut pr.sites))
}

/// the same program with syntactic noise; returns (text, whether `-0` occurs as a comparison operand)
pub fn print_prog_noisy(p: &Prog, naming: Naming, seed: u64) -> (String, bool) {
    let mut pr = Printer::new(p, naming);
    pr.noise = Some(crate::rng::Rng::new(seed));
    let (text, nz) = pr.program_with_flag();
    (text, nz)
}

/// Number of term nodes (size measure)
pub fn size(t: &T) -> usize {
    fn args(a: &[Arg]) -> usize {
        a.iter().map(|x| if let Arg::T(t) = x { size(t) } else { 1 }).sum()
    }
    1 + match t {
        T::Lit(_) | T::Var(_) => 0,
        T::Op(a, _, b) => size(a) + size(b),
        T::If { fst, snd, thn, els, .. } => {
            size(fst) + snd.as_ref().map_or(0, |s| size(s)) + size(thn) + size(els)
        }
        T::Print { arg, next, .. } => size(arg) + size(next),
        T::Let { bound, body, .. } => size(bound) + size(body),
        T::Call { args: a, .. } | T::Ctor { args: a, .. } => args(a),
        T::Dtor { scrut, args: a, .. } => size(scrut) + args(a),
        T::Case { scrut, clauses, .. } => size(scrut) + clauses.iter().map(|c| size(&c.body)).sum::<usize>(),
        T::New { clauses, .. } => clauses.iter().map(|c| size(&c.body)).sum::<usize>(),
        T::Label { body, .. } => size(body),
        T::Goto { arg, .. } => size(arg),
        T::Exit(a) => size(a),
    }
}
