//! Deterministic PRNG (splitmix64 seeding xoshiro256**). All randomness derives from VERIF_SEED.

#[derive(Clone)]
pub struct Rng {
    s: [u64; 4],
}

fn splitmix(x: &mut u64) -> u64 {
    *x = x.wrapping_add(0x9E37_79B9_7F4A_7C15);
    let mut z = *x;
    z = (z ^ (z >> 30)).wrapping_mul(0xBF58_476D_1CE4_E5B9);
    z = (z ^ (z >> 27)).wrapping_mul(0x94D0_49BB_1331_11EB);
    z ^ (z >> 31)
}

pub fn hash_str(s: &str) -> u64 {
    // FNV-1a 64
    let mut h: u64 = 0xcbf2_9ce4_8422_2325;
    for b in s.bytes() {
        h ^= b as u64;
        h = h.wrapping_mul(0x0000_0100_0000_01B3);
    }
    h
}

pub fn mix(a: u64, b: u64) -> u64 {
    let mut x = a ^ b.rotate_left(32) ^ 0xD6E8_FEB8_6659_FD93;
    splitmix(&mut x)
}

impl Rng {
    pub fn new(seed: u64) -> Self {
        let mut x = seed;
        let s = [
            splitmix(&mut x),
            splitmix(&mut x),
            splitmix(&mut x),
            splitmix(&mut x),
        ];
        Rng { s }
    }
    pub fn next_u64(&mut self) -> u64 {
        let result = self.s[1].wrapping_mul(5).rotate_left(7).wrapping_mul(9);
        let t = self.s[1] << 17;
        self.s[2] ^= self.s[0];
        self.s[3] ^= self.s[1];
        self.s[1] ^= self.s[2];
        self.s[0] ^= self.s[3];
        self.s[2] ^= t;
        self.s[3] = self.s[3].rotate_left(45);
        result
    }
    /// uniform in 0..n (n > 0)
    pub fn below(&mut self, n: usize) -> usize {
        debug_assert!(n > 0);
        (self.next_u64() % (n as u64)) as usize
    }
    /// uniform in lo..=hi
    pub fn range(&mut self, lo: i64, hi: i64) -> i64 {
        let span = (hi as i128 - lo as i128 + 1) as u128;
        (lo as i128 + (self.next_u64() as u128 % span) as i128) as i64
    }
    pub fn chance(&mut self, num: u32, den: u32) -> bool {
        (self.next_u64() % den as u64) < num as u64
    }
    pub fn pick<'a, T>(&mut self, xs: &'a [T]) -> &'a T {
        &xs[self.below(xs.len())]
    }
    /// weighted index
    pub fn weighted(&mut self, ws: &[u32]) -> usize {
        let total: u64 = ws.iter().map(|w| *w as u64).sum();
        debug_assert!(total > 0);
        let mut r = self.next_u64() % total;
        for (i, w) in ws.iter().enumerate() {
            if r < *w as u64 {
                return i;
            }
            r -= *w as u64;
        }
        ws.len() - 1
    }
    pub fn shuffle<T>(&mut self, xs: &mut [T]) {
        for i in (1..xs.len()).rev() {
            let j = self.below(i + 1);
            xs.swap(i, j);
        }
    }
    /// interesting 64-bit values
    pub fn boundary_i64(&mut self) -> i64 {
        const POOL: &[i64] = &[
            0, 1, -1, 2, -2, 3, 5, 7, 9, 10, -10, 11, 100, 127, 128, 255, 256, -128, -129, 1000,
            4095, 4096, 4097, -4095, -4096, -4097, 32767, 32768, 65535, 65536, 65537, -65535, -65536,
            2147483647, 2147483648, -2147483648, -2147483649, 4294967295, 4294967296, 4294967297,
            -4294967296, 0x1234_0000_FFFF, 0xFFFF_0000_1234, 0x7FFF_FFFF_FFFF_FFFF,
            -0x7FFF_FFFF_FFFF_FFFF, i64::MIN, i64::MIN + 1, 0x1234_5678_9ABC_DEF0,
            -0x1234_5678_9ABC_DEF0, 0x0000_FFFF_0000_FFFF, -0x0000_FFFF_0000_FFFF,
            0x7FFF_0000_0000_0000, 0x0000_0000_FFFF_0000, 999999999999, -999999999999,
        ];
        match self.below(10) {
            0..=5 => *self.pick(POOL),
            6 => self.range(-20, 20),
            7 => self.next_u64() as i64,
            8 => (self.next_u64() as i64) >> self.below(63),
            _ => {
                // halfword patterns
                let hw = [0x0000u64, 0xFFFF, 0x1234, 0x8000, 0x7FFF];
                let mut v = 0u64;
                for k in 0..4 {
                    v |= *self.pick(&hw) << (16 * k);
                }
                v as i64
            }
        }
    }
    pub fn small_i64(&mut self) -> i64 {
        match self.below(8) {
            0..=4 => self.range(-9, 9),
            5 => self.range(-1000, 1000),
            _ => self.boundary_i64(),
        }
    }
}
