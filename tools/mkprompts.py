#!/usr/bin/env python3
"""usage: tools/mkprompts.py <round-number> [<extra-meta-dir>]
Writes /tmp/seeded<round>/<Cxx>/prompt.txt for every property: the text handed to a fresh sub-agent
that is asked for a property-breaking change (it sees the property text only, nothing of /verif).
The list of earlier changes (so that a new round uses other mechanisms) comes from seeded/*/meta.json.
Worktrees: git -C /repo worktree add --detach /tmp/wt/R<round><Cxx>"""
import glob, json, os, sys
rnd = sys.argv[1]
root = os.path.dirname(os.path.dirname(os.path.abspath(__file__)))
tmpl = open(os.path.join(root, "tools", "seed_prompt_template.txt")).read()
changes = []
for d in sorted(glob.glob(os.path.join(root, "seeded", "*", "meta.json"))):
    m = json.load(open(d))
    c = m.get("change") or m.get("summary")
    if c and c not in changes:
        changes.append(c[:300])
for l in open(os.path.join(root, "properties.jsonl")):
    p = json.loads(l)
    pid = p["id"]
    block = f"{pid} — {p['title']}\n\n{p['statement']}\n\nQuantifier: {p['quantifier']['text']}\n\n"
    out = f"/tmp/seeded{rnd}/{pid}"
    t = (tmpl.replace("@@PROPERTY@@", block).replace("@@CHANGES@@", "".join(f"  - {c}\n" for c in changes))
         .replace("@@WT@@", f"R{rnd}{pid}").replace("@@OUT@@", out).replace("@@ID@@", pid))
    os.makedirs(out, exist_ok=True)
    open(os.path.join(out, "prompt.txt"), "w").write(t)
print(f"{len(changes)} earlier changes listed; prompts in /tmp/seeded{rnd}/")
