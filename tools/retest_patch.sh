#!/bin/bash
# usage: tools/retest_patch.sh <patch.diff> <scratch-worktree> <sandbox-dir> <Cxx> [<Cxx> ...]
# applies a stored change to a scratch worktree of /repo (created at HEAD when missing), runs the
# quick checks in the sandbox, and restores the worktree.  One worktree is re-used for many
# patches: file times only grow there, so cargo rebuilds what changed.
patch="$1"; wt="$2"; sb="$3"; shift 3
[ -d "$wt" ] || git -C /repo worktree add -q --detach "$wt" HEAD || exit 2
git -C "$wt" checkout -q -- . ; git -C "$wt" clean -fdq lang app 2>/dev/null
if ! git -C "$wt" apply "$patch" 2>/dev/null; then echo "$(basename $(dirname $patch)): patch does not apply to HEAD"; exit 3; fi
echo "== $(basename $(dirname $patch))"
SEED_SB="$sb" SEED_BUDGET_S=${SEED_BUDGET_S:-25} /verif/tools/seed_sandbox.sh "$wt" "$@" 2>&1 | cut -c1-260
git -C "$wt" checkout -q -- . ; git -C "$wt" clean -fdq lang app 2>/dev/null
