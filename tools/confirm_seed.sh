#!/bin/bash
# usage: tools/confirm_seed.sh <Cxx> [<seed-name>]
# confirms a seeded change produced in /tmp/wt/<Cxx> with deliverables in /tmp/seeded/<Cxx>:
# test suite in the patched worktree, demonstration fails with / passes without the change.
id="$1"; name="${2:-$1}"
wt=${SEED_WT:-/tmp/wt/$id}; src=${SEED_SRC:-/tmp/seeded/$id}; dst=/verif/seeded/$name
[ -f "$src/patch.diff" ] || { echo "no patch.diff"; exit 2; }
cd "$wt" || exit 2
# make sure the worktree state equals HEAD + patch.diff
git checkout -q -- . ; git clean -fdq lang app testsuite 2>/dev/null
git apply "$src/patch.diff" || { echo "patch does not apply to the worktree"; exit 2; }
tests=$(cargo test --workspace --no-fail-fast --offline 2>&1 | grep -E "^test result" | awk '{p+=$4; f+=$6} END{print p" passed "f" failed"}')
bash "$src/demo.sh" "$wt" > /tmp/seed-demo-patched.log 2>&1; with=$?
bash "$src/demo.sh" "${SEED_CLEAN:-/repo}" > /tmp/seed-demo-clean.log 2>&1; without=$?
echo "$id: tests: $tests ; demo with change: exit $with ; demo on /repo (unchanged): exit $without"
if [ "$with" -ne 0 ] && [ "$without" -eq 0 ] && echo "$tests" | grep -q " 0 failed"; then
  mkdir -p "$dst"; rm -rf "$dst"/*
  cp -r "$src"/* "$dst"/ ; rm -f "$dst/prompt.txt" "$dst/property.txt"
  python3 - "$dst" "$tests" "$with" "$without" <<'PY'
import json,sys
d,tests,w,wo=sys.argv[1:5]
try: m=json.load(open(d+'/meta.json'))
except Exception: m={}
m['confirmed_by_verif']={'existing_tests_with_change':tests,'demo_exit_with_change':int(w),'demo_exit_without_change':int(wo)}
json.dump(m,open(d+'/meta.json','w'),indent=1)
PY
  echo "  kept as $dst"
else
  echo "  NOT confirmed (see /tmp/seed-demo-*.log)"
fi
git -C /repo checkout -q -- . 2>/dev/null; rm -rf /repo/target/c01demo /repo/target/seeded-* /repo/target/c05-demo 2>/dev/null
