#!/bin/bash
# usage: tools/seed_sandbox.sh <worktree-of-/repo-with-change-applied> <Cxx> [<Cxx> ...]
# Runs quick checks against a scratch worktree instead of /repo (so /repo stays untouched, e.g.
# while a sweep is running): copies /verif (without build output) to /tmp/vseed, rewrites every
# "/repo" path to the worktree, builds there and runs the checks.  The copy is kept between calls
# (incremental builds); remove /tmp/vseed when done.
set -u
wt="$1"; shift
sb=${SEED_SB:-/tmp/vseed}
mkdir -p $sb
rsync -a --delete --exclude harness/target --exclude harness/target-scc --exclude replays --exclude .git --exclude seeded /verif/ $sb/
grep -rl "/repo" $sb/check $sb/harness/Cargo.toml $sb/harness/src | xargs sed -i "s#/repo#$wt#g"
# cargo names the artifacts of workspace members by their path relative to the workspace root, so a
# target directory shared by several worktrees re-uses another worktree's crates whenever the
# sources are older than the artifacts: the scc binary gets its own directory per worktree
mkdir -p $sb/harness/target
if [ "$(cat $sb/harness/target/.last_worktree 2>/dev/null)" != "$wt" ]; then
  rm -rf $sb/harness/target-scc
  echo "$wt" > $sb/harness/target/.last_worktree
fi
cd $sb
for p in "$@"; do
  out=$(VERIF_BUDGET_S=${SEED_BUDGET_S:-40} ./check "$p" quick 2>&1)
  code=$?
  nviol=$(echo "$out" | grep -c '^VIOLATION')
  first=$(echo "$out" | grep -A1 '^VIOLATION' | sed -n 2p | cut -c1-260)
  echo "$p exit=$code violations=$nviol :: $(echo "$out" | grep -E "^C[0-9]+ quick|INCONCLUSIVE" | head -1 | cut -c1-140)"
  [ -n "$first" ] && echo "    e.g. $first"
done
