#!/bin/bash
# usage: tools/test_round.sh <round> <first> <last> <sandbox-dir>
# runs, for every seed of the round whose worktree /tmp/wt/R<round>Cxx exists, the quick check of its
# own property in the given sandbox; prints one line per seed
r="$1"; a="$2"; b="$3"; sb="$4"
for i in $(seq -w "$a" "$b"); do
  p="C$i"; wt="/tmp/wt/R${r}$p"
  [ -f "/tmp/seeded${r}/$p/patch.diff" ] || { echo "$p no patch"; continue; }
  SEED_SB="$sb" SEED_BUDGET_S=${SEED_BUDGET_S:-25} /verif/tools/seed_sandbox.sh "$wt" "$p" 2>&1 | tail -2 | cut -c1-300
done
echo LANE-DONE
