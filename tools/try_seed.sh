#!/bin/bash
# usage: tools/try_seed.sh <patch.diff> <prop> [<prop> ...]
# applies a seeded change to /repo, runs the quick checks of the given properties, reverts the change.
set -u
patch="$1"; shift
cd /verif
if ! git -C /repo diff --quiet; then echo "/repo is not clean"; exit 3; fi
git -C /repo apply "$patch" || { echo "patch does not apply"; exit 3; }
# evidence written while the change is applied describes the changed tree: restore the committed files
trap 'git -C /repo checkout -- . ; git -C /repo clean -fdq lang app 2>/dev/null; git -C /verif checkout -- evidence 2>/dev/null' EXIT
for p in "$@"; do
  out=$(VERIF_BUDGET_S=${SEED_BUDGET_S:-40} ./check "$p" quick 2>&1)
  code=$?
  nviol=$(echo "$out" | grep -c '^VIOLATION')
  first=$(echo "$out" | grep -A1 '^VIOLATION' | sed -n 2p | cut -c1-260)
  echo "$p exit=$code violations=$nviol :: $(echo "$out" | head -1 | cut -c1-120)"
  [ -n "$first" ] && echo "    e.g. $first"
done
