#!/usr/bin/env python3
"""Regenerates /verif/MANIFEST.json from the table below (kept next to the checks so that the
manifest never claims a property whose engine is not built)."""
import json, os, subprocess

ROOT = os.path.dirname(os.path.dirname(os.path.abspath(__file__)))

TITLES = {}
for line in open(os.path.join(ROOT, "properties.jsonl")):
    p = json.loads(line)
    TITLES[p["id"]] = p["title"]

# id -> (technique, level text, level_note, design_ref)
CLAIMED = {
    "C01": ("differential runtime monitoring: CEK reference machine vs native process (stdout bytes, exit status) on generated programs; valgrind memcheck on a sample (thorough)",
            "Held on K generated well-typed programs x argument tuples executed natively; every listed count is measured. Exploration, not proof: only executed programs are judged.",
            "Trusted: the harness' CEK machine (DESIGN 2.1), the generator's own typing, GNU as after a syntax-only NASM->GAS transliteration, gcc, the host CPU.", "6/C01"),
    "C06": ("instrumented x86-64 emulator (poison tracking, bounds, wild-jump detection) on printed assembly text vs AxCut positional reference machine",
            "Held on K executions of emitted x86-64 text; sanitizer events and trace differences are violations.",
            "Trusted: the harness' AxCut machine and x86-64 subset emulator (cross-checked against native execution by C01's chain).", "6/C06"),
    "C09": ("heap-shape and reference-count monitor run at every statement-boundary marker (hook) of emulated executions; bounds sanitizer on every memory access",
            "Held at N statement boundaries of K executions: partition of all blocks below the frontier into reachable/reusable/deferred/waiting and exact counts.",
            "Trusted: emulator + monitor; x86-64 only until the AArch64/RISC-V emulators are built (level_note updated then).", "6/C09"),
    "C10": ("footprint monitor over consecutive statement-boundary markers of emulated executions (fresh memory only when both free lists are empty; frontier <= peak reachable + c)",
            "Held on K executions / N marker pairs; the unbounded 'space independent of repetitions' is judged only as the bounded statement within the run lengths executed.",
            "Trusted: emulator + monitor; x86-64 only so far.", "6/C10"),
    "C13": ("ABI monitor in the emulator's external-call model: alignment at calls, invalidation of all caller-saved state, callee-saved registers / stack pointer / return address at the final return",
            "Held on K executions with N external calls checked.",
            "Trusted: emulator's model of the System V ABI; x86-64 only so far.", "6/C13"),
}

REASON_NOT_BUILT = "monitor not built yet (DESIGN.md section 13 fallback rule); will be claimed once its engine exists"

def main():
    checks = []
    for pid in sorted(CLAIMED):
        tech, text, note, ref = CLAIMED[pid]
        checks.append({
            "property_id": pid,
            "quick_cmd": f"./check {pid} quick",
            "thorough_cmd": f"./check {pid} thorough",
            "evidence_file": f"/verif/evidence/{pid}.json",
            "replay_cmd_template": f"./check {pid} --replay {{path}}",
            "engine": "harness",
            "level_claimed": {"category": "exploration", "text": text, "design_ref": f"DESIGN.md section {ref}"},
            "level_note": note,
            "technique": tech,
        })
    na = [{"property_id": pid, "reason": REASON_NOT_BUILT} for pid in sorted(TITLES) if pid not in CLAIMED]
    hook_commits = subprocess.run(["git", "-C", "/repo", "log", "--format=%H", "--grep", "^verif hook"], capture_output=True, text=True).stdout.split()
    manifest = {
        "version": 1,
        "setup_cmd": "./check --build",
        "hooks": {
            "guard": "cargo feature verif_hooks of crate axcut2backend (default off)",
            "enable": "the harness crate depends on axcut2backend with features=[\"verif_hooks\"]; cargo build --release --offline in /verif/harness",
            "baseline_off_cmd": "cd /repo && cargo test --workspace --no-fail-fast --offline",
            "source_commits": hook_commits,
            "add_only": True,
        },
        "engines": [{
            "name": "harness",
            "path": "/verif/harness",
            "serves_properties": sorted(CLAIMED),
            "kind_free_text": "Rust crate with path dependencies on /repo/lang/*: generators, reference machines, instrumented emulators, monitors; ./check shards work over worker processes and writes evidence",
        }],
        "checks": checks,
        "not_applicable": na,
        "notes": "All checks are runtime monitors over executions of the real compiler stages and of the code they emit; see DESIGN.md. Exit 2 of a check means inconclusive (infrastructure), never a verdict.",
    }
    with open(os.path.join(ROOT, "MANIFEST.json"), "w") as f:
        json.dump(manifest, f, indent=1)
    print("claimed:", sorted(CLAIMED), "not claimed:", [x["property_id"] for x in na])

main()
