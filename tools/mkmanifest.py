#!/usr/bin/env python3
"""Regenerates /verif/MANIFEST.json from the table below (kept next to the checks so that the
manifest never claims a property whose engine is not built)."""
import json, os, subprocess

ROOT = os.path.dirname(os.path.dirname(os.path.abspath(__file__)))

TITLES = {}
for line in open(os.path.join(ROOT, "properties.jsonl")):
    p = json.loads(line)
    TITLES[p["id"]] = p["title"]

# id -> (technique, level text, level_note, design_ref)
CLAIMED = {
    "C01": ("differential runtime monitoring: CEK reference machine vs native process (stdout bytes, exit status) on generated programs; native stdout of the repository's hand-written programs (examples/, testsuite/end_to_end/, built-in programs over non-regular types) vs their recorded expected output; valgrind memcheck on a sample (thorough)",
            "Held on K generated well-typed programs x argument tuples executed natively; every listed count is measured. Exploration, not proof: only executed programs are judged.",
            "Trusted: the harness' CEK machine (DESIGN 2.1), the generator's own typing, GNU as after a syntax-only NASM->GAS transliteration, gcc, the host CPU.", "6/C01"),
    "C02": ("differential runtime monitoring: CEK reference machine vs Core abstract machine on the translation output, each program also as its alpha-renamed twin (capture detector); static duplicate-definition check",
            "Held on K generated programs of the effect-sequenced fragment under colliding and hostile naming policies.",
            "Trusted: CEK machine, Core machine (DESIGN 2.1, 2.2).", "6/C02"),
    "C03": ("Core abstract machine run on the program before and after the real focus(): traces compared, argument-frame counter must stay 0 on focused programs, binder-uniqueness monitor on every focused program",
            "Held on K Core programs (translation outputs with effects in any argument position, their eta-expanded variants and variants with shadowing binders) x inputs.",
            "Trusted: Core machine with explicit argument frames (DESIGN 2.2).", "6/C03"),
    "C04": ("Core machine on the focused program vs AxCut named machine on the real shrink output; lifted-definition scope/arity monitor; cut-shape coverage histogram",
            "Held on K focused programs x inputs; evidence lists the cut shapes observed.",
            "Trusted: Core and AxCut machines.", "6/C04"),
    "C05": ("AxCut named machine vs positional machine (run-time assertions of exact environments) on the real linearize() output, plus ordered-linear type checker over every path",
            "Held on K non-linear AxCut programs from the pipeline; static check covers unexecuted paths.",
            "Trusted: AxCut machine (both modes), ordered-linear checker.", "6/C05"),
    "C07": ("instrumented AArch64 emulator (poison, bounds, alignment, wild jumps, immediate ranges) on printed assembly text vs AxCut positional reference machine",
            "Held on K executions of emitted AArch64 text.",
            "Trusted: AxCut machine and the AArch64 subset emulator (unit-tested against the ARM manual; agrees with the x86-64 emulator on every program after the two fixes).", "6/C07"),
    "C08": ("instrumented RISC-V emulator (64-bit LW/SW, poison, bounds, wild jumps) on the printed pseudo-assembly vs AxCut positional reference machine",
            "Held on K print-free programs with at most 14 live variables.",
            "Trusted: AxCut machine and the RISC-V emulator.", "6/C08"),
    "C11": ("exhaustive enumeration of substitution configurations (all maps new(m)->old(n), all kind assignments, window offsets across the register/spill boundary, three backends; then all maps one size further with uniform kinds): the code the real Substitute::code_statement emits is emulated from a state of unique sentinels and the final registers, spill slots, reference counts and free list are compared with the simultaneous-assignment specification; plus random larger maps with shared blocks",
            "Exhaustive for m,n <= 4 (quick) / <= 5 (thorough) per backend (evidence: exhaustive=true when the enumeration completed); larger maps sampled.",
            "Trusted: the three emulators; dead temporaries beyond the new environment are not constrained.", "6/C11"),
    "C12": ("structural monitors (type/scope checkers for Core, uniquified Core, focused Core, AxCut, linear AxCut) on every value the real stages produce; panics caught around every stage and all three code generators; inputs: generated programs, corpus, accepted survivors of token mutations and of the single structured edits of C15 (scope escapes first)",
            "Held on K accepted programs; capacity assertions are counted, not judged.",
            "Trusted: the harness' checkers (DESIGN 4).", "6/C12"),
    "C14": ("static label-table and operand-range monitor over every instruction of the printed text of all three backends; GNU as (x86-64, after syntax-only transliteration), clang's integrated assembler (AArch64) and clang's RISC-V assembler (rv64 pseudo-assembly after a syntax-only transliteration; conditional branches written in the relaxed form) as acceptance oracles; jump-table stride measured from the objects' symbol tables; second pass re-using generated definition names; directed programs whose table/entry and entry/entry labels are aimed at each other",
            "Held on K emitted files per backend (hostile identifiers, large jump tables, boundary literals).",
            "Trusted: the per-ISA operand-range tables of the harness; GNU as stands in for yasm (not installed); RISC-V output is pseudo-assembly: judged by the harness' validator and, transliterated, by clang --target=riscv64 (branch distance not judged).", "6/C14"),
    "C15": ("acceptance monitor on well-typed-by-construction programs plus 31 classes of certainly ill-typed single edits applied at recorded syntactic sites; oracle = result of parse_module + Program::check",
            "Held on K generated programs and N mutants; per-class counts of applied and rejected mutants are in the evidence.",
            "Trusted: the generator's own typing discipline (DESIGN appendix A).", "6/C15"),
    "C17": ("byte comparison of every printable stage output across fresh processes with different environments (harness child processes and the real scc binary), after other compilations in the same process (labels renamed by first occurrence), across every order of stage requests to one driver::Driver, and between the stage commands of scc and scc codegen --print-ir; standard output of the stage commands compared between a pipe, a narrow COLUMNS/LINES environment and a 43-column pseudo terminal",
            "Held on K programs x N fresh processes; evidence reports the number of distinct outputs per stage (must be 1).",
            "Trusted: the OS gives each process a fresh hash seed.", "6/C17"),
    "C18": ("fault-injection style input fuzzing: token/character mutations, nesting, special programs, valid programs over non-regular / mutually recursive types and their mutations, valid programs whose identifiers are consistently renamed to extreme names (huge numeric suffixes, leading zeros, underscores only, thousands of characters), repository corpus mutations; panics caught in-process (8 MiB stack like the real tool), aborts/timeouts attributed through a current-case file, real scc binary on a sample",
            "Held on K inputs (valid UTF-8); termination judged as bounded progress (60 s per input).",
            "Trusted: catch_unwind + process-level attribution; later stages judged only for accepted programs with a valid main.", "6/C18"),
    "C19": ("size monitor on 20 hand-written scalable program families and on randomly composed periodic shapes (12 branching forms x 27 ways of attaching the rest, open and closed mains, main or helper-definition bodies; all 324 single-link shapes, then thousands of random ones), source linear in k: every stage output may grow at most 12x when k doubles (k = 3..16)",
            "Held on the listed families and the random shapes judged (count in the evidence) up to k = 16; nothing is claimed for other program shapes.",
            "Trusted: printed size / instruction count as the size measure.", "6/C19"),
    "C20": ("clang ASan+UBSan build of io.c driven with boundary and random values; native x86-64 programs for 0..5 parameters x 7 shapes of main's body (conditional, match, call, label, closure between the prints and the result) incl. wrong argument counts; AArch64 entry shuffle on the emulator for 0..7 parameters x the same shapes; print-placement matrix (0..23 live variables x kinds x printed position x boundary values) on the x86-64 and AArch64 emulators vs the AxCut positional machine",
            "Held on K values / runs.",
            "Trusted: clang sanitizer runtimes, host libc, the AArch64 emulator.", "6/C20"),
    "C16": ("round-trip monitor parse(print(parse(t),w,i)) == parse(t) and print idempotence over widths 1..200 x indents 0..8 on generated noisy texts and on every .sc file of the repository; scc fmt --inplace on a sample",
            "Held on K parsed programs x N (width, indent) configurations.",
            "Trusted: the derived span-ignoring equality of the syntax tree.", "6/C16"),
    "C06": ("instrumented x86-64 emulator (poison tracking, bounds, wild-jump detection) on printed assembly text vs AxCut positional reference machine",
            "Held on K executions of emitted x86-64 text; sanitizer events and trace differences are violations.",
            "Trusted: the harness' AxCut machine and x86-64 subset emulator (cross-checked against native execution by C01's chain).", "6/C06"),
    "C09": ("heap-shape and reference-count monitor run at every statement-boundary marker (hook) of emulated executions of generated programs, directly generated AxCut programs and the repository's hand-written programs (also when the positional reference machine rejects the linear program); bounds sanitizer on every memory access",
            "Held at N statement boundaries of K executions: partition of all blocks below the frontier into reachable/reusable/deferred/waiting and exact counts.",
            "Trusted: emulators (x86-64, AArch64, RISC-V) + monitor; roots are computed with the backend's own position->temporary map.", "6/C09"),
    "C10": ("footprint monitor over consecutive statement-boundary markers of emulated executions (fresh memory only when both free lists are empty; frontier <= peak reachable + c)",
            "Held on K executions / N marker pairs; the unbounded 'space independent of repetitions' is judged only as the bounded statement within the run lengths executed.",
            "Trusted: emulators (all three backends) + monitor.", "6/C10"),
    "C13": ("ABI monitor in the emulator's external-call model: alignment at calls, invalidation of all caller-saved state, callee-saved registers / stack pointer / return address at the final return; heap/free registers unchanged across a print statement; a variable location that changed across a print statement together with a trace that differs from the reference machine",
            "Held on K executions with N external calls checked.",
            "Trusted: emulators' models of the System V (x86-64) and AAPCS64 (AArch64) calling conventions; RISC-V has no calls.", "6/C13"),
}

REASON_NOT_BUILT = "monitor not built yet (DESIGN.md section 13 fallback rule); will be claimed once its engine exists"

def main():
    checks = []
    for pid in sorted(CLAIMED):
        tech, text, note, ref = CLAIMED[pid]
        checks.append({
            "property_id": pid,
            "quick_cmd": f"./check {pid} quick",
            "thorough_cmd": f"./check {pid} thorough",
            "evidence_file": f"/verif/evidence/{pid}.json",
            "replay_cmd_template": f"./check {pid} --replay {{path}}",
            "engine": "harness",
            "level_claimed": {"category": "exploration", "text": text, "design_ref": f"DESIGN.md section {ref}"},
            "level_note": note,
            "technique": tech,
        })
    na = [{"property_id": pid, "reason": REASON_NOT_BUILT} for pid in sorted(TITLES) if pid not in CLAIMED]
    hook_commits = subprocess.run(["git", "-C", "/repo", "log", "--format=%H", "--grep", "^verif hook"], capture_output=True, text=True).stdout.split()
    manifest = {
        "version": 1,
        "setup_cmd": "./check --build",
        "hooks": {
            "guard": "cargo feature verif_hooks of crate axcut2backend (default off)",
            "enable": "the harness crate depends on axcut2backend with features=[\"verif_hooks\"]; cargo build --release --offline in /verif/harness",
            "baseline_off_cmd": "cd /repo && cargo test --workspace --no-fail-fast --offline",
            "source_commits": hook_commits,
            "add_only": True,
        },
        "engines": [{
            "name": "harness",
            "path": "/verif/harness",
            "serves_properties": sorted(CLAIMED),
            "kind_free_text": "Rust crate with path dependencies on /repo/lang/*: generators, reference machines, instrumented emulators, monitors; ./check shards work over worker processes and writes evidence",
        }],
        "checks": checks,
        "not_applicable": na,
        "notes": "All checks are runtime monitors over executions of the real compiler stages and of the code they emit; see DESIGN.md. Exit 2 of a check means inconclusive (infrastructure), never a verdict.",
    }
    with open(os.path.join(ROOT, "MANIFEST.json"), "w") as f:
        json.dump(manifest, f, indent=1)
    print("claimed:", sorted(CLAIMED), "not claimed:", [x["property_id"] for x in na])

main()
